(* C15 - the leaf modules: for each matcher / handler module its configuration record (the
   JSON-visible fields of the Go struct), the documented Caddyfile form ([*_seg]), the JSON
   encoding of the struct ([*_json], omitempty as tagged in the source) and a model of its
   UnmarshalCaddyfile on the module's segment ([*_parse]).  No proofs here.

   Option blocks are read as the list of their lines; a Go loop of the shape
     for d.NextBlock(nesting) { switch d.Val() { case k: if hasK {dup error}; ...; default: error } ;
                                 if d.NextBlock(nesting+1) {error} }
   is rendered as: every line's name is known, no line has a non-empty nested block, an option
   guarded by hasK occurs at most once ([once]), an appending option contributes the
   concatenation of its occurrences ([multi]).  The result is independent of line order, as in Go. *)
From Coq Require Import List ZArith NArith Bool String Ascii.
From L4.gen Require Import Consts.
From L4.model Require Import Caddyfile.
Import ListNotations.
Open Scope string_scope.
Open Scope list_scope.

Definition cstr (l : list Byte.byte) : string := string_of_list_byte l.

(* ------------------------------------------------------------------ option-block helpers *)
Definition lines : Type := list (string * list string).
Definition opt_line (e : seg) : option (string * list string) :=
  match e with Seg (o :: args) _ [] => Some (o, args) | _ => None end.
Definition opt_lines (body : list seg) : option lines := traverse opt_line body.
Definition known (allowed : list string) (ls : lines) : bool :=
  forallb (fun l => existsb (String.eqb (fst l)) allowed) ls.
Definition occurrences (k : string) (ls : lines) : list (list string) :=
  map snd (filter (fun l => fst l =? k) ls).
Definition once (k : string) (ls : lines) : option (option (list string)) :=
  match occurrences k ls with [] => Some None | [a] => Some (Some a) | _ => None end.
Definition is_nil {A} (l : list A) : bool := match l with [] => true | _ => false end.
(* appending option: each occurrence needs at least one argument *)
Definition multi (k : string) (ls : lines) : option (list string) :=
  let occ := occurrences k ls in
  if existsb is_nil occ then None else Some (List.concat occ).
(* exactly one argument when present *)
Definition once1 (k : string) (ls : lines) : option (option string) :=
  o <- once k ls ;;
  match o with None => Some None | Some [a] => Some (Some a) | Some _ => None end.
(* flag option: no arguments *)
Definition flag (k : string) (ls : lines) : option bool :=
  o <- once k ls ;;
  match o with None => Some false | Some [] => Some true | Some _ => None end.
Definition omap {A B} (f : A -> option B) (o : option A) : option (option B) :=
  match o with None => Some None | Some a => b <- f a ;; Some (Some b) end.

(* printing option lines: a block is rendered from its fields, a field being an option name with
   the argument lists of its occurrences (none when the option is absent) *)
Definition field : Type := string * list (list string).
Definition render (fs : list field) : lines :=
  flat_map (fun f => map (pair (fst f)) (snd f)) fs.
Definition occ_if (args : list string) : list (list string) := match args with [] => [] | _ => [args] end.
Definition occ_opt (o : option string) : list (list string) := match o with Some a => [[a]] | None => [] end.
Definition occ_flag (b : bool) : list (list string) := if b then [[]] else [].
Definition occ_each (l : list string) : list (list string) := map (fun x => [x]) l.
Definition mkline (l : string * list string) : seg := Seg (fst l :: snd l) false [].
Definition block (name : string) (args : list string) (ls : list seg) : seg :=
  match ls with [] => Seg (name :: args) false [] | _ => Seg (name :: args) true ls end.
Definition blockL (name : string) (args : list string) (fs : list field) : seg :=
  block name args (map mkline (render fs)).

(* caddyhttp.PrivateRangesCIDR() (Caddy, not /repo) *)
Definition private_ranges : list string :=
  ["192.168.0.0/16"; "172.16.0.0/12"; "10.0.0.0/8"; "127.0.0.1/8"; "fd00::/8"; "::1"].
Inductive range := RPrivate | RCidr (s : string).
Definition range_word (r : range) : string := match r with RPrivate => "private_ranges" | RCidr s => s end.
Definition range_json (r : range) : list string := match r with RPrivate => private_ranges | RCidr s => [s] end.
Definition expand_priv (l : list string) : list string :=
  flat_map (fun s => if s =? "private_ranges" then private_ranges else [s]) l.
Definition range_ok (r : range) : bool := match r with RPrivate => true | RCidr s => negb (s =? "private_ranges") end.

Definition od_ns (o : option dur) : Z := match o with Some d => dur_ns d | None => 0%Z end.
Definition oz (o : option Z) : Z := match o with Some z => z | None => 0%Z end.
Definition on_ (o : option N) : Z := match o with Some n => Z.of_N n | None => 0%Z end.
Definition os (o : option string) : string := match o with Some s => s | None => "" end.
Definition is_some {A} (o : option A) : bool := match o with Some _ => true | None => false end.

Definition lower_ascii (c : ascii) : ascii :=
  let n := N_of_ascii c in if (65 <=? n)%N && (n <=? 90)%N then ascii_of_N (n + 32) else c.
Fixpoint lower (s : string) : string :=
  match s with EmptyString => EmptyString | String c r => String (lower_ascii c) (lower r) end.

(* a module without arguments and without a (non-empty) block: "ssh", "echo", ... *)
Definition parse_bare (e : seg) : option json :=
  match e with Seg [_] _ [] => Some (JObj []) | _ => None end.

(* ================================================================== matchers *)
Inductive clock_kw_after := KwAfter | KwFrom.
Inductive clock_kw_before := KwBefore | KwTill | KwTo | KwUntil.
Inductive clock_form :=
| CkRange (a b : string)
| CkAfter (k : clock_kw_after) (t : string)
| CkBefore (k : clock_kw_before) (t : string).
Definition kwa_str k := match k with KwAfter => "after" | KwFrom => "from" end.
Definition kwb_str k := match k with KwBefore => "before" | KwTill => "till" | KwTo => "to" | KwUntil => "until" end.

Record dns_rule := DnsRule { dr_deny : bool; dr_regexp : bool; dr_name : option string;
                             dr_type : option (option string); dr_class : option (option string) }.
(* dr_type = None: argument absent; Some None: "*"; Some (Some v): value.  class only with type. *)

Inductive rdp_form :=
| RdpNone
| RdpHash (re : bool) (v : string)
| RdpIPPort (ips : list range) (ports : list N)
| RdpCustom (re : bool) (v : string).

Record openvpn_cfg := OpenVPN {
  ov_modes : list string; ov_ignore_crypto : bool; ov_ignore_timestamp : bool;
  ov_group_key : option (bool * string);      (* (is_file, value) *)
  ov_auth_digest : option string; ov_direction : option string;
  ov_server_key : option (bool * string);
  ov_client_keys : list string; ov_client_key_files : list string }.

(* tls.handshake_match matchers usable inside the tls / quic matchers (l4tls.ParseCaddyfileNestedMatcherSet) *)
Inductive tlsm :=
| TSni (names : list string)
| TAlpn (vals : list string)
| TRemoteIP (rs : list (bool * range))      (* (written with a leading "!", range) *)
| TLocalIP (rs : list range).
Definition tlsm_name (t : tlsm) : string :=
  match t with TSni _ => "sni" | TAlpn _ => "alpn" | TRemoteIP _ => "remote_ip" | TLocalIP _ => "local_ip" end.
Definition neg_word (nr : bool * range) : string :=
  if fst nr then String "!" (range_word (snd nr)) else range_word (snd nr).
Definition tlsm_seg (t : tlsm) : seg :=
  Seg (tlsm_name t :: match t with
                      | TSni l | TAlpn l => l
                      | TRemoteIP rs => map neg_word rs
                      | TLocalIP rs => map range_word rs
                      end) false [].
Definition tlsm_json (t : tlsm) : json :=
  match t with
  | TSni l | TAlpn l => JArr (map JStr l)
  | TRemoteIP rs =>
      JObj (omit [("ranges", o_strs (flat_map (fun nr => range_json (snd nr)) (filter (fun nr => negb (fst nr)) rs)));
                  ("not_ranges", o_strs (flat_map (fun nr => range_json (snd nr)) (filter fst rs)))])
  | TLocalIP rs => JObj (omit [("ranges", o_strs (flat_map range_json rs))])
  end.

(* request matchers usable inside the http matcher: host / path / method, and not over them *)
Inductive hm_kind := HkHost | HkPath | HkMethod.
Definition hk_name (k : hm_kind) : string := match k with HkHost => "host" | HkPath => "path" | HkMethod => "method" end.
Definition hsimple : Type := hm_kind * list string.
Definition hsimple_seg (h : hsimple) : seg := Seg (hk_name (fst h) :: snd h) false [].
Definition hsimple_json (h : hsimple) : json := JArr (map JStr (snd h)).
Inductive httpm := HmSimple (h : hsimple) | HmNot (il : bool) (inner : list hsimple).
Definition httpm_name (m : httpm) : string := match m with HmSimple h => hk_name (fst h) | HmNot _ _ => "not" end.
Definition httpm_seg (m : httpm) : seg :=
  match m with HmSimple h => hsimple_seg h | HmNot il inner => set_seg "not" il (map hsimple_seg inner) end.
Definition httpm_json (m : httpm) : json :=
  match m with
  | HmSimple h => hsimple_json h
  | HmNot _ inner => JArr [JObj (sort_kv (map (fun h => (hk_name (fst h), hsimple_json h)) inner))]
  end.

Inductive mleaf :=
| MTls (quic il : bool) (subs : list tlsm)
| MHttp (il : bool) (subs : list httpm)
| MSsh | MXmpp | MPostgres | MProxyProtocol
| MSocks4 (cmds : list string) (nets : list range) (ports : list N)
| MSocks5 (auth : list N)
| MRegexp (pat : string) (count : option N)
| MClock (f : clock_form) (tz : option string)
| MWireguard (zero : option N)
| MWinbox (modes : list string) (user : option (bool * string))
| MRemoteIP (rs : list range)
| MLocalIP (rs : list range)
| MDns (rules : list dns_rule) (default_deny prefer_allow : bool)
| MRdp (f : rdp_form)
| MOpenvpn (c : openvpn_cfg).

Definition mleaf_name (m : mleaf) : string :=
  match m with
  | MTls quic _ _ => if quic then "quic" else "tls"
  | MHttp _ _ => "http"
  | MSsh => "ssh" | MXmpp => "xmpp" | MPostgres => "postgres" | MProxyProtocol => "proxy_protocol"
  | MSocks4 _ _ _ => "socks4" | MSocks5 _ => "socks5" | MRegexp _ _ => "regexp" | MClock _ _ => "clock"
  | MWireguard _ => "wireguard" | MWinbox _ _ => "winbox" | MRemoteIP _ => "remote_ip"
  | MLocalIP _ => "local_ip" | MDns _ _ _ => "dns" | MRdp _ => "rdp" | MOpenvpn _ => "openvpn"
  end.

Definition opt_words (o : option string) : list string := match o with Some s => [s] | None => [] end.

Definition star (o : option string) : string := match o with Some v => v | None => cstr l4dns_dnsSpecialAny end.
Definition dns_rule_line (r : dns_rule) : string * list string :=
  (((if dr_deny r then "deny" else "allow") ++ (if dr_regexp r then "_regexp" else ""))%string,
       star (dr_name r) ::
        match dr_type r with
        | None => []
        | Some t => star t :: match dr_class r with None => [] | Some c => [star c] end
        end).

(* a value given either inline (false) or as a file (true) *)
Definition key_sel (file : bool) (o : option (bool * string)) : option string :=
  match o with Some (f, v) => if Bool.eqb f file then Some v else None | None => None end.

Definition mleaf_seg (m : mleaf) : seg :=
  match m with
  | MTls quic il subs => set_seg (if quic then "quic" else "tls") il (map tlsm_seg subs)
  | MHttp il subs => set_seg "http" il (map httpm_seg subs)
  | MSsh | MXmpp | MPostgres | MProxyProtocol => Seg [mleaf_name m] false []
  | MSocks4 cmds nets ports =>
      blockL "socks4" [] [("commands", occ_if cmds); ("networks", occ_if (map range_word nets));
                          ("ports", occ_if (map print_N ports))]
  | MSocks5 auth => blockL "socks5" [] [("auth_methods", occ_if (map print_N auth))]
  | MRegexp pat count =>
      Seg ("regexp" :: pat :: match count with Some n => [print_N n] | None => [] end) false []
  | MClock f tz =>
      Seg ("clock" :: match f with
                      | CkRange a b => [a; b]
                      | CkAfter k t => [kwa_str k; t]
                      | CkBefore k t => [kwb_str k; t]
                      end ++ opt_words tz) false []
  | MWireguard zero => Seg ("wireguard" :: match zero with Some n => [print_N n] | None => [] end) false []
  | MWinbox modes user =>
      blockL "winbox" [] [("modes", occ_if modes); ("username", occ_opt (key_sel false user));
                          ("username_regexp", occ_opt (key_sel true user))]
  | MRemoteIP rs => Seg ("remote_ip" :: map range_word rs) false []
  | MLocalIP rs => Seg ("local_ip" :: map range_word rs) false []
  | MDns rules dd pa =>
      block "dns" [] (map mkline (map dns_rule_line rules ++
                                  render [("default_deny", occ_flag dd); ("prefer_allow", occ_flag pa)]))
  | MRdp f =>
      blockL "rdp" [] match f with
                      | RdpNone => []
                      | RdpHash re v => [(if re then "cookie_hash_regexp" else "cookie_hash", [[v]])]
                      | RdpIPPort ips ports =>
                          [("cookie_ip", occ_if (map range_word ips)); ("cookie_port", occ_if (map print_N ports))]
                      | RdpCustom re v => [(if re then "custom_info_regexp" else "custom_info", [[v]])]
                      end
  | MOpenvpn c =>
      blockL "openvpn" []
        [("modes", occ_if (ov_modes c)); ("ignore_crypto", occ_flag (ov_ignore_crypto c));
         ("ignore_timestamp", occ_flag (ov_ignore_timestamp c));
         ("group_key", occ_opt (key_sel false (ov_group_key c)));
         ("group_key_file", occ_opt (key_sel true (ov_group_key c)));
         ("auth_digest", occ_opt (ov_auth_digest c)); ("group_key_direction", occ_opt (ov_direction c));
         ("server_key", occ_opt (key_sel false (ov_server_key c)));
         ("server_key_file", occ_opt (key_sel true (ov_server_key c)));
         ("client_key", occ_each (ov_client_keys c));
         ("client_key_file", occ_each (ov_client_key_files c))]
  end.

Definition dns_rule_json (r : dns_rule) : json :=
  let nm := os (dr_name r) in
  let ty := match dr_type r with Some (Some v) => v | _ => "" end in
  let cl := match dr_class r with Some (Some v) => v | _ => "" end in
  if dr_regexp r
  then JObj (omit [("class_regexp", o_str cl); ("name_regexp", o_str nm); ("type_regexp", o_str ty)])
  else JObj (omit [("class", o_str cl); ("name", o_str nm); ("type", o_str ty)]).

Definition key_val (file : bool) (o : option (bool * string)) : string :=
  match o with Some (f, v) => if Bool.eqb f file then v else "" | None => "" end.

Definition time0 : string := cstr l4clock_timeMin.
Definition mleaf_json (m : mleaf) : json :=
  match m with
  | MTls _ _ subs => JObj (sort_kv (map (fun t => (tlsm_name t, tlsm_json t)) subs))
  | MHttp _ subs => JArr [JObj (sort_kv (map (fun m => (httpm_name m, httpm_json m)) subs))]
  | MSsh | MXmpp | MPostgres | MProxyProtocol => JObj []
  | MSocks4 cmds nets ports =>
      JObj (omit [("commands", o_strs cmds); ("networks", o_strs (flat_map range_json nets));
                  ("ports", o_nums ports)])
  | MSocks5 auth => JObj (omit [("auth_methods", o_nums auth)])
  | MRegexp pat count => JObj (omit [("count", o_num (on_ count)); ("pattern", o_str pat)])
  | MClock f tz =>
      let ab := match f with
                | CkRange a b => (a, b)
                | CkAfter _ t => (t, cstr l4clock_timeMax)
                | CkBefore _ t => (cstr l4clock_timeMin, t)
                end in
      JObj (omit [("after", o_str (fst ab)); ("before", o_str (snd ab)); ("timezone", o_str (os tz))])
  | MWireguard zero => JObj (omit [("zero", o_num (on_ zero))])
  | MWinbox modes user =>
      JObj (omit [("modes", o_strs modes);
                  ("username", o_str (key_val false user));
                  ("username_regexp", o_str (key_val true user))])
  | MRemoteIP rs | MLocalIP rs => JObj (omit [("ranges", o_strs (flat_map range_json rs))])
  | MDns rules dd pa =>
      JObj (omit [("allow", o_arr (map dns_rule_json (filter (fun r => negb (dr_deny r)) rules)));
                  ("deny", o_arr (map dns_rule_json (filter dr_deny rules)));
                  ("default_deny", o_bool dd); ("prefer_allow", o_bool pa)])
  | MRdp f =>
      match f with
      | RdpNone => JObj []
      | RdpHash re v => JObj (omit [(if re then "cookie_hash_regexp" else "cookie_hash", o_str v)])
      | RdpIPPort ips ports =>
          JObj (omit [("cookie_ips", o_strs (flat_map range_json ips)); ("cookie_ports", o_nums ports)])
      | RdpCustom re v => JObj (omit [(if re then "custom_info_regexp" else "custom_info", o_str v)])
      end
  | MOpenvpn c =>
      JObj (omit [("modes", o_strs (ov_modes c));
                  ("ignore_crypto", o_bool (ov_ignore_crypto c));
                  ("ignore_timestamp", o_bool (ov_ignore_timestamp c));
                  ("group_key", o_str (key_val false (ov_group_key c)));
                  ("group_key_file", o_str (key_val true (ov_group_key c)));
                  ("auth_digest", o_str (os (ov_auth_digest c)));
                  ("group_key_direction", o_str (os (ov_direction c)));
                  ("server_key", o_str (key_val false (ov_server_key c)));
                  ("server_key_file", o_str (key_val true (ov_server_key c)));
                  ("client_keys", o_strs (ov_client_keys c));
                  ("client_key_files", o_strs (ov_client_key_files c))])
  end.

(* ---- UnmarshalCaddyfile models *)
Definition block_lines (e : seg) : option lines :=
  match e with Seg [_] _ body => opt_lines body | _ => None end.

Definition parse_socks4 (e : seg) : option json :=
  ls <- block_lines e ;;
  if known ["commands"; "networks"; "ports"] ls then
    cs <- multi "commands" ls ;; ns <- multi "networks" ls ;; ps <- multi "ports" ls ;;
    ports <- traverse (parse_uint 16) ps ;;
    Some (JObj (omit [("commands", o_strs cs); ("networks", o_strs (expand_priv ns)); ("ports", o_nums ports)]))
  else None.

Definition parse_socks5m (e : seg) : option json :=
  ls <- block_lines e ;;
  if known ["auth_methods"] ls then
    ms <- multi "auth_methods" ls ;; nums <- traverse (parse_uint 8) ms ;;
    Some (JObj (omit [("auth_methods", o_nums nums)]))
  else None.

Definition parse_regexp (e : seg) : option json :=
  match e with
  | Seg [_; pat] _ [] => Some (JObj (omit [("count", o_num 0); ("pattern", o_str pat)]))
  | Seg [_; pat; c] _ [] =>
      n <- parse_uint 16 c ;; Some (JObj (omit [("count", o_num (Z.of_N n)); ("pattern", o_str pat)]))
  | _ => None
  end.

Definition clock_first_second (first second : string) : string * string :=
  let l := lower first in
  if (l =? "before") || (l =? "till") || (l =? "to") || (l =? "until") then (cstr l4clock_timeMin, second)
  else if (l =? "after") || (l =? "from") then (second, cstr l4clock_timeMax)
  else (first, second).
Definition parse_clock (e : seg) : option json :=
  match e with
  | Seg (_ :: first :: second :: rest) _ [] =>
      tz <- (match rest with [] => Some "" | [z] => Some z | _ => None end) ;;
      let ab := clock_first_second first second in
      Some (JObj (omit [("after", o_str (fst ab)); ("before", o_str (snd ab)); ("timezone", o_str tz)]))
  | _ => None
  end.

Definition parse_wireguard (e : seg) : option json :=
  match e with
  | Seg [_] _ [] => Some (JObj [])
  | Seg [_; z] _ [] => n <- parse_uint 32 z ;; Some (JObj (omit [("zero", o_num (Z.of_N n))]))
  | _ => None
  end.

Definition parse_winbox (e : seg) : option json :=
  ls <- block_lines e ;;
  if known ["modes"; "username"; "username_regexp"] ls then
    modes <- once "modes" ls ;;
    ms <- (match modes with None => Some [] | Some [] => None | Some [a] => Some [a] | Some [a; b] => Some [a; b]
           | Some _ => None end) ;;
    u <- once1 "username" ls ;; ur <- once1 "username_regexp" ls ;;
    (* both share the hasUsername guard *)
    if is_some u && is_some ur then None else
    Some (JObj (omit [("modes", o_strs ms); ("username", o_str (os u)); ("username_regexp", o_str (os ur))]))
  else None.

Definition parse_ranges (e : seg) : option json :=
  match e with
  | Seg (_ :: r :: rs) _ [] => Some (JObj (omit [("ranges", o_strs (expand_priv (r :: rs)))]))
  | _ => None
  end.

Definition nostar (s : string) : string := if s =? cstr l4dns_dnsSpecialAny then "" else s.
Definition parse_dns_rule (l : string * list string) : option (option (bool * json)) :=
  let k := fst l in
  let mk (re : bool) (args : list string) : option json :=
    match args with
    | [] => None
    | n :: r =>
        tc <- (match r with [] => Some ("", "") | [t] => Some (nostar t, "") | [t; c] => Some (nostar t, nostar c)
               | _ => None end) ;;
        Some (if re
              then JObj (omit [("class_regexp", o_str (snd tc)); ("name_regexp", o_str (nostar n)); ("type_regexp", o_str (fst tc))])
              else JObj (omit [("class", o_str (snd tc)); ("name", o_str (nostar n)); ("type", o_str (fst tc))]))
    end in
  if k =? "allow" then j <- mk false (snd l) ;; Some (Some (false, j))
  else if k =? "allow_regexp" then j <- mk true (snd l) ;; Some (Some (false, j))
  else if k =? "deny" then j <- mk false (snd l) ;; Some (Some (true, j))
  else if k =? "deny_regexp" then j <- mk true (snd l) ;; Some (Some (true, j))
  else Some None.
Fixpoint somes {A} (l : list (option A)) : list A :=
  match l with [] => [] | Some a :: r => a :: somes r | None :: r => somes r end.
Definition parse_dns (e : seg) : option json :=
  ls <- block_lines e ;;
  if known ["allow"; "allow_regexp"; "deny"; "deny_regexp"; "default_deny"; "prefer_allow"] ls then
    rs <- traverse parse_dns_rule ls ;;
    dd <- flag "default_deny" ls ;; pa <- flag "prefer_allow" ls ;;
    let rules := somes rs in
    Some (JObj (omit [("allow", o_arr (map snd (filter (fun r => negb (fst r)) rules)));
                      ("deny", o_arr (map snd (filter fst rules)));
                      ("default_deny", o_bool dd); ("prefer_allow", o_bool pa)]))
  else None.

Definition parse_rdp (e : seg) : option json :=
  ls <- block_lines e ;;
  if known ["cookie_hash"; "cookie_hash_regexp"; "cookie_ip"; "cookie_port"; "custom_info"; "custom_info_regexp"] ls then
    h <- once1 "cookie_hash" ls ;; hr <- once1 "cookie_hash_regexp" ls ;;
    ips <- multi "cookie_ip" ls ;; ps <- multi "cookie_port" ls ;; ports <- traverse (parse_uint 16) ps ;;
    c <- once1 "custom_info" ls ;; cr <- once1 "custom_info_regexp" ls ;;
    let has_hash := is_some h || is_some hr in
    let has_ipport := negb (is_nil (occurrences "cookie_ip" ls)) || negb (is_nil (occurrences "cookie_port" ls)) in
    let has_custom := is_some c || is_some cr in
    if (is_some h && is_some hr) || (is_some c && is_some cr) ||
       (has_hash && has_ipport) || (has_hash && has_custom) || (has_ipport && has_custom) then None else
    Some (JObj (omit [("cookie_hash", o_str (os h)); ("cookie_hash_regexp", o_str (os hr));
                      ("cookie_ips", o_strs (expand_priv ips)); ("cookie_ports", o_nums ports);
                      ("custom_info", o_str (os c)); ("custom_info_regexp", o_str (os cr))]))
  else None.

(* client_key / client_key_file: exactly one argument per occurrence *)
Definition multi1 (k : string) (ls : lines) : option (list string) :=
  traverse (fun a => match a with [x] => Some x | _ => None end) (occurrences k ls).
Definition parse_openvpn (e : seg) : option json :=
  ls <- block_lines e ;;
  if known ["modes"; "ignore_crypto"; "ignore_timestamp"; "group_key"; "group_key_file"; "auth_digest";
            "group_key_direction"; "server_key"; "server_key_file"; "client_key"; "client_key_file"] ls then
    modes <- once "modes" ls ;;
    ms <- (match modes with None => Some [] | Some [] => None
           | Some l => if (List.length l <=? 4)%nat then Some l else None end) ;;
    ic <- flag "ignore_crypto" ls ;; it <- flag "ignore_timestamp" ls ;;
    gk <- once1 "group_key" ls ;; gkf <- once1 "group_key_file" ls ;;
    ad <- once1 "auth_digest" ls ;; dir <- once1 "group_key_direction" ls ;;
    sk <- once1 "server_key" ls ;; skf <- once1 "server_key_file" ls ;;
    ck <- multi1 "client_key" ls ;; ckf <- multi1 "client_key_file" ls ;;
    if (is_some gk && is_some gkf) || (is_some sk && is_some skf) then None else
    Some (JObj (omit [("modes", o_strs ms); ("ignore_crypto", o_bool ic); ("ignore_timestamp", o_bool it);
                      ("group_key", o_str (os gk)); ("group_key_file", o_str (os gkf));
                      ("auth_digest", o_str (os ad)); ("group_key_direction", o_str (os dir));
                      ("server_key", o_str (os sk)); ("server_key_file", o_str (os skf));
                      ("client_keys", o_strs ck); ("client_key_files", o_strs ckf)]))
  else None.

(* l4tls: remote_ip token: optional leading "!" (only when something follows), then private_ranges or a range *)
Definition parse_neg_word (w : string) : bool * list string :=
  let nv := match w with
            | String c (String c2 r) => if Ascii.eqb c "!" then (true, String c2 r) else (false, w)
            | _ => (false, w)
            end in
  (fst nv, if snd nv =? "private_ranges" then private_ranges else [snd nv]).
Definition parse_tlsm (name : string) (e : seg) : option json :=
  match e with
  | Seg (_ :: a :: rest) _ [] =>
      let args := a :: rest in
      if (name =? "sni") || (name =? "alpn") then Some (JArr (map JStr args))
      else if name =? "local_ip" then Some (JObj (omit [("ranges", o_strs (expand_priv args))]))
      else if name =? "remote_ip" then
        let ps := map parse_neg_word args in
        Some (JObj (omit [("ranges", o_strs (flat_map snd (filter (fun p => negb (fst p)) ps)));
                          ("not_ranges", o_strs (flat_map snd (filter fst ps)))]))
      else None
  | _ => None
  end.
(* the loop shared by l4tls.ParseCaddyfileNestedMatcherSet and caddyhttp.ParseCaddyfileNestedMatcherSet:
   "d.NextArg() || d.NextBlock(nesting)" - a same-line argument makes the set that single matcher
   (with the rest of the line and the block), otherwise one matcher per directive of the block.
   Tokens of a repeated matcher name are appended to the first one's; l4tls hands only the first
   segment to the matcher (later occurrences are dropped), caddyhttp hands all of them (merge):
   the model keeps the first, i.e. it covers caddyhttp only for distinct names. *)
Fixpoint dedup_first (seen : list string) (l : list seg) : list seg :=
  match l with
  | [] => []
  | e :: r => if existsb (String.eqb (seg_name e)) seen then dedup_first seen r
              else e :: dedup_first (seg_name e :: seen) r
  end.
Definition parse_flat_set (leafp : string -> seg -> option json) (e : seg) : option (list (string * json)) :=
  match e with
  | Seg (_ :: args) hb body =>
      let entries := match args with [] => body | _ => [Seg args hb body] end in
      ms <- traverse (fun en => j <- leafp (seg_name en) en ;; Some (seg_name en, j)) (dedup_first [] entries) ;;
      Some (sort_kv ms)
  | _ => None
  end.
(* MatchTLS / MatchQUIC.UnmarshalCaddyfile *)
Definition parse_tls (e : seg) : option json := option_map JObj (parse_flat_set parse_tlsm e).

(* http.matchers host / path / method (Caddy): the arguments, as a JSON array of strings *)
Definition parse_hsimple (name : string) (e : seg) : option json :=
  if (name =? "host") || (name =? "path") || (name =? "method") then
    match e with Seg (_ :: a :: rest) _ [] => Some (JArr (map JStr (a :: rest))) | _ => None end
  else None.
(* plus http.matchers.not over such matchers (caddyhttp MatchNot: one set per segment) *)
Definition parse_httpm (name : string) (e : seg) : option json :=
  if name =? "not" then option_map (fun ms => JArr [JObj ms]) (parse_flat_set parse_hsimple e)
  else parse_hsimple name e.
(* MatchHTTP.UnmarshalCaddyfile: caddyhttp.ParseCaddyfileNestedMatcherSet, a single set *)
Definition parse_http (e : seg) : option json :=
  option_map (fun ms => JArr [JObj ms]) (parse_flat_set parse_httpm e).

Definition mleaf_parse (name : string) (e : seg) : option json :=
  if (name =? "tls") || (name =? "quic") then parse_tls e else
  if name =? "http" then parse_http e else
  if (name =? "ssh") || (name =? "xmpp") || (name =? "postgres") || (name =? "proxy_protocol") then parse_bare e
  else if name =? "socks4" then parse_socks4 e
  else if name =? "socks5" then parse_socks5m e
  else if name =? "regexp" then parse_regexp e
  else if name =? "clock" then parse_clock e
  else if name =? "wireguard" then parse_wireguard e
  else if name =? "winbox" then parse_winbox e
  else if (name =? "remote_ip") || (name =? "local_ip") then parse_ranges e
  else if name =? "dns" then parse_dns e
  else if name =? "rdp" then parse_rdp e
  else if name =? "openvpn" then parse_openvpn e
  else None.

(* ================================================================== handlers *)
Inductive policy :=
| PRandom | PLeastConn | PRoundRobin | PFirst | PIPHash
| PRandomChoose (n : option Z).
Definition policy_name (p : policy) : string :=
  match p with
  | PRandom => "random" | PLeastConn => "least_conn" | PRoundRobin => "round_robin" | PFirst => "first"
  | PIPHash => "ip_hash" | PRandomChoose _ => "random_choose"
  end.

Record uptls := UpTLS {
  ut_insecure : bool; ut_server_name : option string; ut_renegotiation : option string;
  ut_timeout : option dur; ut_curves : list string; ut_except_ports : list string;
  ut_client_auth : list string;     (* [] | [automate] | [cert; key] *)
  ut_trust : option (list string) }. (* tls_trust_pool inline { trust_der <certs...> } *)
Record upstream := Upstream {
  up_args : list string; up_dial : list string; up_max_conns : option Z; up_tls : option uptls }.

Record proxy_cfg := Proxy {
  px_args : list string; px_upstreams : list upstream;
  px_health_interval : option dur; px_health_port : option Z; px_health_timeout : option dur;
  px_fail_duration : option dur; px_max_fails : option Z; px_unhealthy_count : option Z;
  px_policy : option policy; px_try_duration : option dur; px_try_interval : option dur;
  px_proxy_protocol : option string }.

(* a float option value: an unsigned integer literal or a canonical decimal <int>.<frac> (no
   leading zeros, last fractional digit non-zero), whose strconv.ParseFloat / encoding/json round
   trip is the literal itself (assumed for at most 15 significant digits, no exponent form) *)
Inductive rate := RInt (n : N) | RDec (ip : N) (frac : string).
Definition rate_word (r : rate) : string :=
  match r with RInt n => print_N n | RDec ip frac => (print_N ip ++ String "." frac)%string end.
Definition rate_json (r : rate) : json :=
  match r with RInt n => JNum (Z.of_N n) | RDec _ _ => JFloat (rate_word r) end.
Definition o_rate (j : json) : option json := match j with JNum 0 => None | _ => Some j end.
Definition or_json (o : option rate) : option json := match o with Some r => o_rate (rate_json r) | None => None end.
Fixpoint str_digits (s : string) : bool :=
  match s with EmptyString => true | String c r => is_digit c && str_digits r end.
Fixpoint last_nonzero (s : string) : bool :=
  match s with
  | EmptyString => false
  | String c EmptyString => negb (Ascii.eqb c "0")
  | String _ r => last_nonzero r
  end.
Definition rate_ok (r : rate) : bool :=
  match r with
  | RInt _ => true
  | RDec ip frac => str_digits frac && last_nonzero frac && (ip <? 1000000000)%N && (String.length frac <=? 6)%nat
  end.
Definition orate_ok (o : option rate) : bool := match o with Some r => rate_ok r | None => true end.

(* cert_selection { all_tags / any_tag / serial_number / subject_organization <values...> }: every
   option may be REPEATED, each line with one or more values; the values accumulate in order
   (a field is the list of its lines).  public_key_algorithm is not modelled. *)
Record cert_sel := CertSel {
  cs_all_tags : list (list string); cs_any_tag : list (list string);
  cs_serials : list (list N); cs_orgs : list (list string) }.

(* tls handler: one connection policy (client_auth is not modelled) *)
Record conn_policy := ConnPolicy {
  cp_alpn : list string; cp_ciphers : list string; cp_curves : list string;
  cp_default_sni : option string; cp_drop : bool; cp_fallback_sni : option string;
  cp_secrets_log : option string; cp_protocols : list string;      (* [] | [min] | [min; max] *)
  cp_match : option (bool * list tlsm);
  cp_cert_sel : option cert_sel }.

Inductive hleaf :=
| HTls (cps : list conn_policy)
| HEcho
| HProxyProtocol (allow : list range) (timeout : option dur)
| HThrottle (latency : option dur) (rbs : option Z) (rbps : option rate) (trbs : option Z) (trbps : option rate)
| HSocks5 (bind_ip : option string) (commands : list string) (creds : list (string * string))
| HProxy (c : proxy_cfg).

Definition hleaf_name (h : hleaf) : string :=
  match h with
  | HTls _ => "tls"
  | HEcho => "echo" | HProxyProtocol _ _ => "proxy_protocol" | HThrottle _ _ _ _ _ => "throttle"
  | HSocks5 _ _ _ => "socks5" | HProxy _ => "proxy"
  end.

Definition odur_words (o : option dur) : option string := option_map print_dur o.
Definition oz_words (o : option Z) : option string := option_map print_Z o.
Definition on_words (o : option N) : option string := option_map print_N o.
Definition orate_words (o : option rate) : option string := option_map rate_word o.

Definition uptls_fields (t : uptls) : list field :=
  [("tls", [[]]); ("tls_client_auth", occ_if (ut_client_auth t)); ("tls_curves", occ_if (ut_curves t));
   ("tls_except_ports", occ_if (ut_except_ports t)); ("tls_insecure_skip_verify", occ_flag (ut_insecure t));
   ("tls_renegotiation", occ_opt (ut_renegotiation t)); ("tls_server_name", occ_opt (ut_server_name t));
   ("tls_timeout", occ_opt (odur_words (ut_timeout t)))].
Definition upstream_fields (u : upstream) : list field :=
  [("dial", occ_if (up_dial u)); ("max_connections", occ_opt (oz_words (up_max_conns u)))] ++
  match up_tls u with Some t => uptls_fields t | None => [] end.
Definition uptls_trust_seg (t : uptls) : list seg :=
  match ut_trust t with
  | Some certs => [Seg ["tls_trust_pool"; "inline"] true [mkline ("trust_der", certs)]]
  | None => []
  end.
Definition upstream_seg (u : upstream) : seg :=
  block "upstream" (up_args u)
    (map mkline (render (upstream_fields u)) ++ match up_tls u with Some t => uptls_trust_seg t | None => [] end).
Definition policy_words (p : policy) : list string :=
  policy_name p :: match p with PRandomChoose (Some n) => [print_Z n] | _ => [] end.
Definition proxy_fields (c : proxy_cfg) : list field :=
  [("health_interval", occ_opt (odur_words (px_health_interval c)));
   ("health_port", occ_opt (oz_words (px_health_port c)));
   ("health_timeout", occ_opt (odur_words (px_health_timeout c)));
   ("fail_duration", occ_opt (odur_words (px_fail_duration c)));
   ("max_fails", occ_opt (oz_words (px_max_fails c)));
   ("unhealthy_connection_count", occ_opt (oz_words (px_unhealthy_count c)));
   ("lb_policy", match px_policy c with Some p => [policy_words p] | None => [] end);
   ("lb_try_duration", occ_opt (odur_words (px_try_duration c)));
   ("lb_try_interval", occ_opt (odur_words (px_try_interval c)));
   ("proxy_protocol", occ_opt (px_proxy_protocol c))].

Definition conn_policy_fields (c : conn_policy) : list field :=
  [("alpn", occ_if (cp_alpn c)); ("ciphers", occ_if (cp_ciphers c)); ("curves", occ_if (cp_curves c));
   ("default_sni", occ_opt (cp_default_sni c)); ("drop", occ_flag (cp_drop c));
   ("fallback_sni", occ_opt (cp_fallback_sni c)); ("insecure_secrets_log", occ_opt (cp_secrets_log c));
   ("protocols", occ_if (cp_protocols c))].
Definition cp_match_seg (c : conn_policy) : list seg :=
  match cp_match c with Some (il, subs) => [set_seg "match" il (map tlsm_seg subs)] | None => [] end.
Definition cert_sel_fields (c : cert_sel) : list field :=
  [("all_tags", cs_all_tags c); ("any_tag", cs_any_tag c);
   ("serial_number", map (map print_N) (cs_serials c)); ("subject_organization", cs_orgs c)].
Definition cert_sel_json (c : cert_sel) : json :=
  JObj (omit [("serial_number", o_strs (map print_N (List.concat (cs_serials c))));
              ("subject_organization", o_strs (List.concat (cs_orgs c)));
              ("any_tag", o_strs (List.concat (cs_any_tag c))); ("all_tags", o_strs (List.concat (cs_all_tags c)))]).
Definition cp_cert_sel_seg (c : conn_policy) : list seg :=
  match cp_cert_sel c with Some cs => [blockL "cert_selection" [] (cert_sel_fields cs)] | None => [] end.
Definition conn_policy_seg (c : conn_policy) : seg :=
  Seg ["connection_policy"] true
    (map mkline (render (conn_policy_fields c)) ++ cp_cert_sel_seg c ++ cp_match_seg c).
Definition conn_policy_json (c : conn_policy) : json :=
  JObj (omit [("match", match cp_match c with
                        | Some (_, subs) => o_obj (sort_kv (map (fun t => (tlsm_name t, tlsm_json t)) subs))
                        | None => None end);
              ("certificate_selection", option_map cert_sel_json (cp_cert_sel c));
              ("cipher_suites", o_strs (cp_ciphers c)); ("curves", o_strs (cp_curves c)); ("alpn", o_strs (cp_alpn c));
              ("protocol_min", o_str (match cp_protocols c with p :: _ => p | [] => "" end));
              ("protocol_max", o_str (match cp_protocols c with _ :: p :: _ => p | _ => "" end));
              ("drop", o_bool (cp_drop c)); ("default_sni", o_str (os (cp_default_sni c)));
              ("fallback_sni", o_str (os (cp_fallback_sni c)));
              ("insecure_secrets_log", o_str (os (cp_secrets_log c)))]).
Definition hleaf_seg (h : hleaf) : seg :=
  match h with
  | HTls cps => block "tls" [] (map conn_policy_seg cps)
  | HEcho => Seg ["echo"] false []
  | HProxyProtocol allow timeout =>
      blockL "proxy_protocol" [] [("allow", occ_if (map range_word allow)); ("timeout", occ_opt (odur_words timeout))]
  | HThrottle latency rbs rbps trbs trbps =>
      blockL "throttle" []
        [("latency", occ_opt (odur_words latency)); ("read_burst_size", occ_opt (oz_words rbs));
         ("read_bytes_per_second", occ_opt (orate_words rbps)); ("total_read_burst_size", occ_opt (oz_words trbs));
         ("total_read_bytes_per_second", occ_opt (orate_words trbps))]
  | HSocks5 bind_ip commands creds =>
      blockL "socks5" []
        [("bind_ip", occ_opt bind_ip); ("commands", occ_if commands);
         ("credentials", occ_if (flat_map (fun c => [fst c; snd c]) creds))]
  | HProxy c =>
      block "proxy" (px_args c) (map mkline (render (proxy_fields c)) ++ map upstream_seg (px_upstreams c))
  end.

Definition trust_json (certs : list string) : json :=
  set_inline_t "provider" "inline" (JObj (omit [("trusted_ca_certs", o_strs certs)])).
Definition uptls_json (t : uptls) : json :=
  JObj (omit [("ca", option_map trust_json (ut_trust t));
              ("client_certificate_file", o_str (match ut_client_auth t with [c; _] => c | _ => "" end));
              ("client_certificate_key_file", o_str (match ut_client_auth t with [_; k] => k | _ => "" end));
              ("client_certificate_automate", o_str (match ut_client_auth t with [a] => a | _ => "" end));
              ("insecure_skip_verify", o_bool (ut_insecure t));
              ("handshake_timeout", o_num (od_ns (ut_timeout t)));
              ("server_name", o_str (os (ut_server_name t)));
              ("renegotiation", o_str (os (ut_renegotiation t)));
              ("except_ports", o_strs (ut_except_ports t));
              ("curves", o_strs (ut_curves t))]).
Definition upstream_json (u : upstream) : json :=
  JObj (omit [("dial", o_strs (up_args u ++ up_dial u));
              ("tls", option_map uptls_json (up_tls u));
              ("max_connections", o_num (oz (up_max_conns u)))]).
Definition policy_json (p : policy) : json :=
  set_inline_t "policy" (policy_name p)
    (JObj (omit [("choose", match p with PRandomChoose (Some n) => o_num n | _ => None end)])).

Definition creds_json (creds : list (string * string)) : option json :=
  match creds with [] => None | _ => Some (JObj (sort_kv (map (fun c => (fst c, JStr (snd c))) creds))) end.

Definition hleaf_json (h : hleaf) : json :=
  match h with
  | HTls cps => JObj (omit [("connection_policies", o_arr (map conn_policy_json cps))])
  | HEcho => JObj []
  | HProxyProtocol allow timeout =>
      JObj (omit [("timeout", o_num (od_ns timeout)); ("allow", o_strs (flat_map range_json allow))])
  | HThrottle latency rbs rbps trbs trbps =>
      JObj (omit [("read_bytes_per_second", or_json rbps); ("read_burst_size", o_num (oz rbs));
                  ("total_read_bytes_per_second", or_json trbps); ("total_read_burst_size", o_num (oz trbs));
                  ("latency", o_num (od_ns latency))])
  | HSocks5 bind_ip commands creds =>
      JObj (omit [("commands", o_strs commands); ("bind_ip", o_str (os bind_ip)); ("credentials", creds_json creds)])
  | HProxy c =>
      let active := is_some (px_health_interval c) || is_some (px_health_port c) || is_some (px_health_timeout c) in
      let passive := is_some (px_fail_duration c) || is_some (px_max_fails c) || is_some (px_unhealthy_count c) in
      let lb := is_some (px_policy c) || is_some (px_try_duration c) || is_some (px_try_interval c) in
      JObj (omit [("upstreams", o_arr (map (fun a => JObj [("dial", JArr [JStr a])]) (px_args c) ++
                                       map upstream_json (px_upstreams c)));
                  ("health_checks",
                   if active || passive then
                     Some (JObj (omit [("active", if active then Some (JObj (omit [
                                          ("port", o_num (oz (px_health_port c)));
                                          ("interval", o_num (od_ns (px_health_interval c)));
                                          ("timeout", o_num (od_ns (px_health_timeout c)))])) else None);
                                       ("passive", if passive then Some (JObj (omit [
                                          ("fail_duration", o_num (od_ns (px_fail_duration c)));
                                          ("max_fails", o_num (oz (px_max_fails c)));
                                          ("unhealthy_connection_count", o_num (oz (px_unhealthy_count c)))])) else None)]))
                   else None);
                  ("load_balancing",
                   if lb then Some (JObj (omit [("selection", option_map policy_json (px_policy c));
                                                ("try_duration", o_num (od_ns (px_try_duration c)));
                                                ("try_interval", o_num (od_ns (px_try_interval c)))]))
                   else None);
                  ("proxy_protocol", o_str (os (px_proxy_protocol c)))])
  end.

(* ---- UnmarshalCaddyfile models *)
Definition parse_pp_handler (e : seg) : option json :=
  ls <- block_lines e ;;
  if known ["allow"; "timeout"] ls then
    allow <- multi "allow" ls ;; t <- once1 "timeout" ls ;; ns <- omap parse_duration t ;;
    Some (JObj (omit [("timeout", o_num (oz ns)); ("allow", o_strs (expand_priv allow))]))
  else None.

(* strconv.ParseFloat on unsigned integer literals and canonical decimals, then encoding/json *)
Definition parse_rate (s : string) : option json :=
  let (a, b) := span_digits s in
  match b with
  | EmptyString => option_map (fun n => JNum (Z.of_N n)) (parse_N a)
  | String c f =>
      if Ascii.eqb c "." then
        n <- parse_N a ;;
        if (print_N n =? a) && str_digits f && last_nonzero f then Some (JFloat s) else None
      else None
  end.
Definition oj_rate (o : option json) : option json := match o with Some j => o_rate j | None => None end.
Definition parse_throttle (e : seg) : option json :=
  ls <- block_lines e ;;
  if known ["latency"; "read_burst_size"; "read_bytes_per_second"; "total_read_burst_size";
            "total_read_bytes_per_second"] ls then
    l <- once1 "latency" ls ;; lns <- omap parse_duration l ;;
    a <- once1 "read_burst_size" ls ;; az <- omap (parse_int 32) a ;;
    b <- once1 "read_bytes_per_second" ls ;; bz <- omap parse_rate b ;;
    c <- once1 "total_read_burst_size" ls ;; cz <- omap (parse_int 32) c ;;
    d <- once1 "total_read_bytes_per_second" ls ;; dz <- omap parse_rate d ;;
    Some (JObj (omit [("read_bytes_per_second", oj_rate bz); ("read_burst_size", o_num (oz az));
                      ("total_read_bytes_per_second", oj_rate dz); ("total_read_burst_size", o_num (oz cz));
                      ("latency", o_num (oz lns))]))
  else None.

(* credentials <user> <pass> ...: pairs written into a map (a later pair for the same user wins) *)
Fixpoint pairs (l : list string) : option (list (string * string)) :=
  match l with
  | [] => Some []
  | u :: p :: r => ps <- pairs r ;; Some ((u, p) :: ps)
  | _ => None
  end.
Fixpoint map_put (k v : string) (m : list (string * string)) : list (string * string) :=
  match m with
  | [] => [(k, v)]
  | (k', v') :: r => if k =? k' then (k, v) :: r else (k', v') :: map_put k v r
  end.
Definition to_map (l : list (string * string)) : list (string * string) :=
  fold_left (fun m kv => map_put (fst kv) (snd kv) m) l [].
Definition parse_socks5h (e : seg) : option json :=
  ls <- block_lines e ;;
  if known ["bind_ip"; "commands"; "credentials"] ls then
    b <- once1 "bind_ip" ls ;; cs <- multi "commands" ls ;;
    cr <- traverse (fun a => match a with [] => None | _ => pairs a end) (occurrences "credentials" ls) ;;
    let m := to_map (List.concat cr) in
    Some (JObj (omit [("commands", o_strs cs); ("bind_ip", o_str (os b));
                      ("credentials", match occurrences "credentials" ls with
                                      | [] => None
                                      | _ => Some (JObj (sort_kv (map (fun c => (fst c, JStr (snd c))) m)))
                                      end)]))
  else None.

Definition parse_policy (ws : list string) : option json :=
  match ws with
  | [] => None
  | name :: args =>
      j <- (if (name =? "random") || (name =? "least_conn") || (name =? "round_robin") || (name =? "first") ||
               (name =? "ip_hash")
            then match args with [] => Some (JObj []) | _ => None end
            else if name =? "random_choose"
            then match args with
                 | [] => Some (JObj [])
                 | [a] => n <- parse_int 32 a ;; Some (JObj (omit [("choose", o_num n)]))
                 | _ => None
                 end
            else None) ;;
      set_inline "policy" name j
  end.

(* tls_trust_pool <module>: only Caddy's "inline" CA pool is modelled (trust_der <certs...>, repeatable) *)
Definition parse_trust_pool (e : seg) : option json :=
  match e with
  | Seg [_; name] _ body =>
      if name =? "inline" then
        ls <- opt_lines body ;;
        if known ["trust_der"] ls then
          match List.concat (occurrences "trust_der" ls) with
          | [] => None
          | certs => set_inline "provider" "inline" (JObj (omit [("trusted_ca_certs", o_strs certs)]))
          end
        else None
      else None
  | _ => None
  end.
Definition parse_uptls (ls : lines) (tp : option json) : option (option json) :=
  t <- flag "tls" ls ;;
  ca <- once "tls_client_auth" ls ;;
  cav <- (match ca with None => Some [] | Some [a] => Some [a] | Some [c; k] => Some [c; k] | Some _ => None end) ;;
  cu <- multi "tls_curves" ls ;; ep <- multi "tls_except_ports" ls ;;
  ins <- flag "tls_insecure_skip_verify" ls ;;
  re <- once1 "tls_renegotiation" ls ;;
  reok <- (match re with
           | None => Some tt
           | Some v => if (v =? "never") || (v =? "once") || (v =? "freely") then Some tt else None
           end) ;;
  sn <- once1 "tls_server_name" ls ;;
  to <- once1 "tls_timeout" ls ;; tns <- omap parse_duration to ;;
  let present := t || is_some ca || negb (is_nil (occurrences "tls_curves" ls)) ||
                 negb (is_nil (occurrences "tls_except_ports" ls)) || ins || is_some re || is_some sn || is_some to ||
                 is_some tp in
  if present then
    Some (Some (JObj (omit [
      ("ca", tp);
      ("client_certificate_file", o_str (match cav with [c; _] => c | _ => "" end));
      ("client_certificate_key_file", o_str (match cav with [_; k] => k | _ => "" end));
      ("client_certificate_automate", o_str (match cav with [a] => a | _ => "" end));
      ("insecure_skip_verify", o_bool ins);
      ("handshake_timeout", o_num (oz tns));
      ("server_name", o_str (os sn));
      ("renegotiation", o_str (os re));
      ("except_ports", o_strs ep);
      ("curves", o_strs cu)])))
  else Some None.

Definition upstream_known : list string :=
  ["dial"; "max_connections"; "tls"; "tls_client_auth"; "tls_curves"; "tls_except_ports";
   "tls_insecure_skip_verify"; "tls_renegotiation"; "tls_server_name"; "tls_timeout"].
(* the deprecated tls_trusted_ca_* options are not modelled *)
Definition parse_upstream (e : seg) : option json :=
  match e with
  | Seg (_ :: args) _ body =>
      let tps := filter (fun s => seg_name s =? "tls_trust_pool") body in
      let others := filter (fun s => negb (seg_name s =? "tls_trust_pool")) body in
      ls <- opt_lines others ;;
      if known upstream_known ls then
        tp <- (match tps with [] => Some None | [t] => option_map Some (parse_trust_pool t) | _ => None end) ;;
        dial <- multi "dial" ls ;;
        mc <- once1 "max_connections" ls ;; mcz <- omap (parse_int 32) mc ;;
        tls <- parse_uptls ls tp ;;
        match args ++ dial with
        | [] => None
        | all => Some (JObj (omit [("dial", o_strs all); ("tls", tls); ("max_connections", o_num (oz mcz))]))
        end
      else None
  | _ => None
  end.

Definition proxy_known : list string :=
  ["health_interval"; "health_port"; "health_timeout"; "fail_duration"; "max_fails";
   "unhealthy_connection_count"; "lb_policy"; "lb_try_duration"; "lb_try_interval"; "proxy_protocol"].
(* the proxy block: "upstream" directives may carry blocks, every other option may not *)
Definition parse_proxy (e : seg) : option json :=
  match e with
  | Seg (_ :: args) _ body =>
      let ups := filter (fun s => seg_name s =? "upstream") body in
      let others := filter (fun s => negb (seg_name s =? "upstream")) body in
      ls <- opt_lines others ;;
      if known proxy_known ls then
        ujs <- traverse parse_upstream ups ;;
        hi <- once1 "health_interval" ls ;; hins <- omap parse_duration hi ;;
        hp <- once1 "health_port" ls ;; hpz <- omap (parse_int 32) hp ;;
        ht <- once1 "health_timeout" ls ;; htns <- omap parse_duration ht ;;
        fd <- once1 "fail_duration" ls ;; fdns <- omap parse_duration fd ;;
        mf <- once1 "max_fails" ls ;; mfz <- omap (parse_int 32) mf ;;
        uc <- once1 "unhealthy_connection_count" ls ;; ucz <- omap (parse_int 32) uc ;;
        pol <- once "lb_policy" ls ;; polj <- omap parse_policy pol ;;
        td <- once1 "lb_try_duration" ls ;; tdns <- omap parse_duration td ;;
        ti <- once1 "lb_try_interval" ls ;; tins <- omap parse_duration ti ;;
        pp <- once1 "proxy_protocol" ls ;;
        let active := is_some hi || is_some hp || is_some ht in
        let passive := is_some fd || is_some mf || is_some uc in
        let lb := is_some pol || is_some td || is_some ti in
        Some (JObj (omit [
          ("upstreams", o_arr (map (fun a => JObj [("dial", JArr [JStr a])]) args ++ ujs));
          ("health_checks",
           if active || passive then
             Some (JObj (omit [("active", if active then Some (JObj (omit [
                                  ("port", o_num (oz hpz)); ("interval", o_num (oz hins));
                                  ("timeout", o_num (oz htns))])) else None);
                               ("passive", if passive then Some (JObj (omit [
                                  ("fail_duration", o_num (oz fdns)); ("max_fails", o_num (oz mfz));
                                  ("unhealthy_connection_count", o_num (oz ucz))])) else None)]))
           else None);
          ("load_balancing",
           if lb then Some (JObj (omit [("selection", polj); ("try_duration", o_num (oz tdns));
                                        ("try_interval", o_num (oz tins))]))
           else None);
          ("proxy_protocol", o_str (os pp))]))
      else None
  | _ => None
  end.

(* an appending option that may be repeated: every occurrence needs at least one argument *)
(* unmarshalCaddyfileCertSelection (without public_key_algorithm): serial numbers are read as
   big integers and written back in canonical decimal form *)
Definition parse_cert_sel (e : seg) : option json :=
  ls <- block_lines e ;;
  if known ["all_tags"; "any_tag"; "serial_number"; "subject_organization"] ls then
    al <- multi "all_tags" ls ;; an <- multi "any_tag" ls ;; sn <- multi "serial_number" ls ;;
    so <- multi "subject_organization" ls ;;
    nums <- traverse parse_N sn ;;
    Some (JObj (omit [("serial_number", o_strs (map print_N nums)); ("subject_organization", o_strs so);
                      ("any_tag", o_strs an); ("all_tags", o_strs al)]))
  else None.

Definition is_cp_match (s : seg) : bool := seg_name s =? "match".
Definition is_cp_cert_sel (s : seg) : bool := seg_name s =? "cert_selection".
(* unmarshalCaddyfileConnectionPolicy without client_auth *)
Definition parse_conn_policy (e : seg) : option json :=
  match e with
  | Seg [_] _ body =>
      let ms := filter is_cp_match body in
      let cs := filter is_cp_cert_sel body in
      let others := filter (fun s => negb (is_cp_match s || is_cp_cert_sel s)) body in
      ls <- opt_lines others ;;
      if known ["alpn"; "ciphers"; "curves"; "default_sni"; "drop"; "fallback_sni"; "insecure_secrets_log"; "protocols"] ls then
        mj <- (match ms with [] => Some None | [m] => option_map Some (parse_flat_set parse_tlsm m) | _ => None end) ;;
        csj <- (match cs with [] => Some None | [c] => option_map Some (parse_cert_sel c) | _ => None end) ;;
        alpn <- multi "alpn" ls ;; ci <- multi "ciphers" ls ;; cu <- multi "curves" ls ;;
        ds <- once1 "default_sni" ls ;; dr <- flag "drop" ls ;; fs <- once1 "fallback_sni" ls ;;
        sl <- once1 "insecure_secrets_log" ls ;;
        pr <- once "protocols" ls ;;
        prs <- (match pr with None => Some [] | Some [a] => Some [a] | Some [a; b] => Some [a; b] | Some _ => None end) ;;
        Some (JObj (omit [("match", match mj with Some l => o_obj l | None => None end);
                          ("certificate_selection", csj);
                          ("cipher_suites", o_strs ci); ("curves", o_strs cu); ("alpn", o_strs alpn);
                          ("protocol_min", o_str (match prs with p :: _ => p | [] => "" end));
                          ("protocol_max", o_str (match prs with _ :: p :: _ => p | _ => "" end));
                          ("drop", o_bool dr); ("default_sni", o_str (os ds)); ("fallback_sni", o_str (os fs));
                          ("insecure_secrets_log", o_str (os sl))]))
      else None
  | _ => None
  end.
Definition parse_tls_handler (e : seg) : option json :=
  match e with
  | Seg [_] _ body =>
      if forallb (fun s => seg_name s =? "connection_policy") body then
        cps <- traverse parse_conn_policy body ;;
        Some (JObj (omit [("connection_policies", o_arr cps)]))
      else None
  | _ => None
  end.

Definition hleaf_parse (name : string) (e : seg) : option json :=
  if name =? "tls" then parse_tls_handler e else
  if name =? "echo" then parse_bare e
  else if name =? "proxy_protocol" then parse_pp_handler e
  else if name =? "throttle" then parse_throttle e
  else if name =? "socks5" then parse_socks5h e
  else if name =? "proxy" then parse_proxy e
  else None.

(* ================================================================== leaf domains *)
(* the values for which the leaf lemmas are proved: numbers inside the type's range, durations
   inside int64, no word that the module reads as a keyword, documented argument counts *)
Definition int32_ok (z : Z) : bool := (- 2147483648 <=? z)%Z && (z <? 2147483648)%Z.
Definition oint32_ok (o : option Z) : bool := match o with Some z => int32_ok z | None => true end.
Definition odur_ok (o : option dur) : bool := match o with Some d => dur_ok d | None => true end.
Definition nbits_ok (bits : N) (n : N) : bool := (n <? 2 ^ bits)%N.
Definition clock_kw (s : string) : bool :=
  let l := lower s in
  (l =? "before") || (l =? "till") || (l =? "to") || (l =? "until") || (l =? "after") || (l =? "from").
Definition ostar_ok (o : option string) : bool :=
  match o with Some v => negb (v =? cstr l4dns_dnsSpecialAny) | None => true end.
Definition dns_rule_ok (r : dns_rule) : bool :=
  ostar_ok (dr_name r) &&
  match dr_type r with
  | None => negb (is_some (dr_class r))
  | Some t => ostar_ok t && match dr_class r with Some c => ostar_ok c | None => true end
  end.
Definition no_bang (s : string) : bool := match s with String c _ => negb (Ascii.eqb c "!") | EmptyString => false end.
Definition neg_range_ok (nr : bool * range) : bool :=
  match snd nr with RPrivate => true | RCidr s => negb (s =? "private_ranges") && no_bang s end.
Definition tlsm_ok (t : tlsm) : bool :=
  match t with
  | TSni l | TAlpn l => negb (is_nil l)
  | TRemoteIP rs => negb (is_nil rs) && forallb neg_range_ok rs
  | TLocalIP rs => negb (is_nil rs) && forallb range_ok rs
  end.
Definition hsimple_ok (h : hsimple) : bool := negb (is_nil (snd h)).
Definition httpm_ok (m : httpm) : bool :=
  match m with
  | HmSimple h => hsimple_ok h
  | HmNot _ inner => negb (has_dup (map (fun h => hk_name (fst h)) inner)) && forallb hsimple_ok inner
  end.
Definition mleaf_ok (m : mleaf) : bool :=
  match m with
  | MTls _ _ subs => negb (has_dup (map tlsm_name subs)) && forallb tlsm_ok subs
  | MHttp _ subs => negb (has_dup (map httpm_name subs)) && forallb httpm_ok subs
  | MSsh | MXmpp | MPostgres | MProxyProtocol => true
  | MSocks4 _ nets ports => forallb range_ok nets && forallb (nbits_ok 16) ports
  | MSocks5 auth => forallb (nbits_ok 8) auth
  | MRegexp _ count => match count with Some n => nbits_ok 16 n | None => true end
  | MClock f _ => match f with CkRange a _ => negb (clock_kw a) | _ => true end
  | MWireguard zero => match zero with Some n => nbits_ok 32 n | None => true end
  | MWinbox modes _ => (List.length modes <=? 2)%nat
  | MRemoteIP rs | MLocalIP rs => forallb range_ok rs && negb (is_nil rs)
  | MDns rules _ _ => forallb dns_rule_ok rules
  | MRdp f =>
      match f with
      | RdpIPPort ips ports => forallb range_ok ips && forallb (nbits_ok 16) ports
      | _ => true
      end
  | MOpenvpn c => (List.length (ov_modes c) <=? 4)%nat
  end.

Definition uptls_ok (t : uptls) : bool :=
  odur_ok (ut_timeout t) && (List.length (ut_client_auth t) <=? 2)%nat &&
  match ut_trust t with Some certs => negb (is_nil certs) | None => true end &&
  match ut_renegotiation t with
  | Some v => (v =? "never") || (v =? "once") || (v =? "freely")
  | None => true
  end.
Definition upstream_ok (u : upstream) : bool :=
  negb (is_nil (up_args u ++ up_dial u)) && oint32_ok (up_max_conns u) &&
  match up_tls u with Some t => uptls_ok t | None => true end.
Definition policy_ok (p : policy) : bool :=
  match p with PRandomChoose (Some n) => int32_ok n | _ => true end.
Definition conn_policy_ok (c : conn_policy) : bool :=
  (List.length (cp_protocols c) <=? 2)%nat &&
  match cp_cert_sel c with
  | Some cs => forallb (fun l => negb (is_nil l)) (cs_all_tags cs) && forallb (fun l => negb (is_nil l)) (cs_any_tag cs) &&
               forallb (fun l => negb (is_nil l)) (cs_serials cs) && forallb (fun l => negb (is_nil l)) (cs_orgs cs)
  | None => true
  end &&
  match cp_match c with
  | Some (_, subs) => negb (has_dup (map tlsm_name subs)) && forallb tlsm_ok subs
  | None => true
  end.

Definition hleaf_ok (h : hleaf) : bool :=
  match h with
  | HEcho => true
  | HProxyProtocol allow timeout => forallb range_ok allow && odur_ok timeout
  | HThrottle latency rbs rbps trbs trbps =>
      odur_ok latency && oint32_ok rbs && oint32_ok trbs && orate_ok rbps && orate_ok trbps
  | HTls cps => forallb conn_policy_ok cps
  | HSocks5 _ _ creds => negb (has_dup (map fst creds))
  | HProxy c =>
      forallb upstream_ok (px_upstreams c) &&
      odur_ok (px_health_interval c) && oint32_ok (px_health_port c) && odur_ok (px_health_timeout c) &&
      odur_ok (px_fail_duration c) && oint32_ok (px_max_fails c) && oint32_ok (px_unhealthy_count c) &&
      match px_policy c with Some p => policy_ok p | None => true end &&
      odur_ok (px_try_duration c) && odur_ok (px_try_interval c)
  end.

(* ================================================================== the instantiated model *)
Definition matcherT := matcher mleaf.
Definition handlerT := handler mleaf hleaf.
Definition rblockT := rblock mleaf hleaf.
Definition serverT := server mleaf hleaf.
Definition configT := config mleaf hleaf.

Definition adapt_l4 : list tok -> option json := adapt mleaf_parse hleaf_parse.
Definition adapt_lw_l4 : list tok -> option (list json) := adapt_lw mleaf_parse hleaf_parse.
Definition print_l4 : configT -> list tok := print_caddyfile mleaf hleaf mleaf_seg hleaf_seg.
Definition print_lw_l4 : rblockT -> list seg -> list seg -> list tok :=
  print_caddyfile_lw mleaf hleaf mleaf_seg hleaf_seg.
Definition to_json_l4 : configT -> json := to_json mleaf hleaf mleaf_name mleaf_json hleaf_name hleaf_json.
Definition lw_json_l4 : rblockT -> json := lw_json mleaf hleaf mleaf_name mleaf_json hleaf_name hleaf_json.
Definition config_ok_l4 : configT -> bool := config_ok mleaf hleaf mleaf_name mleaf_ok hleaf_ok.
Definition rblock_ok_l4 : rblockT -> bool := rblock_ok mleaf hleaf mleaf_name mleaf_ok hleaf_ok.
Definition rblock_segs_l4 : rblockT -> list seg := rblock_segs mleaf hleaf mleaf_seg hleaf_seg.
