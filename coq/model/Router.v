(* Routing level of caddy-l4: RouteList.Compile (layer4/routes.go), MatcherSet.Match /
   MatcherSets.AnyMatch / MatchNot.Match (layer4/matchers.go), the handler chain built from
   Route.middleware (layer4/handlers.go), Connection.prefetch's size test (layer4/connection.go)
   and subroute.Handle (modules/l4subroute/handler.go: Compile with the rest of the outer chain
   as [next]).  Definitions only; lemmas are in proofs/RouterProofs.v.

   The connection is flat at this level: [off] consumed bytes still held in cx.buf, [avail] =
   cx.buf[cx.offset:], and an abstract network [net] below it (three operations: the clock,
   SetReadDeadline, Read of at most n bytes).  model/Timing.v gives the timed instances (TCP
   deadline semantics, the UDP packetConn emulation); [snet] below is the untimed scripted
   instance used by the C02 correspondence engine.  The byte-level connection (freeze/unfreeze,
   Wrap, layered readers) is model/Conn.v (C01). *)
From Coq Require Import List NArith ZArith Bool Arith Lia.
From Coq.Strings Require Import Byte.
From L4.model Require Import GoBase.
From L4.gen Require Import Consts Shape.
Import ListNotations.
Close Scope Z_scope.
Open Scope nat_scope.

Definition MAXB : nat := Z.to_nat layer4_MaxMatchingBytes.
Definition CHUNK : nat := Z.to_nat layer4_prefetchChunkSize.
(* shape of the source this transcription follows; regenerated from /repo on every run *)
Definition last_exit_clears : bool := layer4_compile_last_exit_clears_deadline.

(* ---------------------------------------------------------------- matchers *)
(* A primitive matcher is a function of the bytes available for matching (and, implicitly, of
   the constant connection environment).  [MNot] is layer4.MatchNot. *)
Inductive matcher :=
| MPrim (f : list byte -> verdict)
| MNot (sets : list (list matcher)).

(* MatcherSet.Match: AND, left to right, first non-Yes answer wins.
   MatchNot.Match: for each set: error (incl. need-more) is passed on; Yes => No; else next; Yes at the end. *)
Fixpoint meval (m : matcher) (b : list byte) {struct m} : verdict :=
  match m with
  | MPrim f => f b
  | MNot sets =>
      (fix notsets (ss : list (list matcher)) : verdict :=
         match ss with
         | [] => Yes
         | s :: r =>
             match (fix mset (ms : list matcher) : verdict :=
                      match ms with
                      | [] => Yes
                      | m' :: r' => match meval m' b with Yes => mset r' | v => v end
                      end) s with
             | Yes => No
             | No => notsets r
             | v => v
             end
         end) sets
  end.

Fixpoint mset (ms : list matcher) (b : list byte) : verdict :=
  match ms with
  | [] => Yes
  | m :: r => match meval m b with Yes => mset r b | v => v end
  end.

Fixpoint notsets (ss : list (list matcher)) (b : list byte) : verdict :=
  match ss with
  | [] => Yes
  | s :: r => match mset s b with Yes => No | No => notsets r b | v => v end
  end.

(* MatcherSets.AnyMatch: OR over the sets, first Yes or first error wins; no set at all = Yes *)
Fixpoint anyset (mss : list (list matcher)) (b : list byte) : verdict :=
  match mss with
  | [] => No
  | s :: r => match mset s b with Yes => Yes | No => anyset r b | v => v end
  end.
Definition anymatch (mss : list (list matcher)) (b : list byte) : verdict :=
  match mss with [] => Yes | _ => anyset mss b end.

(* ---------------------------------------------------------------- routes and handlers *)
Inductive handler :=
| HTerm                                   (* terminal: returns nil without calling next (proxy, echo, close) *)
| HCons (k : nat)                         (* io.ReadFull of k bytes from the connection, then next *)
| HFail                                   (* returns an error *)
| HWrap                                   (* next.Handle(cx.Wrap(cx)): a new Connection (empty buffer) reading through the old one *)
| HSub (rs : list route) (timeout : Z)    (* l4subroute.Handler *)
with route := Route (mss : list (list matcher)) (hs : list handler).

Definition route_mss (r : route) := match r with Route m _ => m end.
Definition route_hs (r : route) := match r with Route _ h => h end.

Inductive dropwhy := DTimeout | DFull | DNetErr | DMatchErr.
Inductive ev :=
| EArm                                    (* cx.Conn.SetReadDeadline(deadline) *)
| EClear                                  (* cx.Conn.SetReadDeadline(time.Time{}) *)
| ERun (depth idx : nat) (b : list byte)  (* the handlers of route idx of the route list at nesting depth start; b = bytes available *)
| ERead (depth idx : nat) (d : list byte) (* an HCons handler of that route obtained these bytes *)
| EFallback (depth : nat) (b : list byte) (* Compile called its next handler; b = bytes available *)
| ESkip (depth idx : nat) (b : list byte) (* ghost: route idx passed over because of its cached routeNotMatched *)
| ENext (depth idx : nat) (b : list byte) (* ghost: the handlers of route idx called the last handler (the route was not terminal);
                                            b = bytes available on the connection they handed on *)
| EDrop (depth : nat) (w : dropwhy)       (* Compile logged and returned nil during matching *)
| EHErr (depth idx : nat)                 (* a handler returned an error *)
| EPanic (depth idx : nat).               (* a matcher panicked *)

Inductive rres := RData (d : list byte) | RTimeout | RErr.

Section Net.
(* the network below the connection *)
Variable net : Type.
Variable now : net -> Z.                       (* time.Now(), ns *)
Variable set_dl : option Z -> net -> net.      (* SetReadDeadline(t) / SetReadDeadline(time.Time{}) *)
Variable nread : nat -> net -> rres * net.     (* Conn.Read(p), len p = n; may block (time passes inside net) *)
Variable npush : list byte -> net -> net.      (* bytes a reader below the connection will deliver first (Connection.Wrap) *)

Record st := { off : nat; avail : list byte; nt : net; tr : list (Z * ev) }.

Definition emit (e : ev) (s : st) : st :=
  {| off := off s; avail := avail s; nt := nt s; tr := tr s ++ [(now (nt s), e)] |}.
Definition arm (d : Z) (s : st) : st :=
  emit EArm {| off := off s; avail := avail s; nt := set_dl (Some d) (nt s); tr := tr s |}.
Definition clear (s : st) : st :=
  emit EClear {| off := off s; avail := avail s; nt := set_dl None (nt s); tr := tr s |}.

(* Done: the chain returned without calling the last handler (terminal, error, drop);
   Cont: the last handler was called (connection state handed on) and everything returned nil *)
Inductive res := Done (s : st) | Cont (s : st) | Crash (s : st) | Exhausted (s : st).

Definition res_st (r : res) : st :=
  match r with Done s | Cont s | Crash s | Exhausted s => s end.

(* Connection.prefetch *)
Definition prefetch (s : st) : st + (dropwhy * st) :=
  if MAXB <=? off s + length (avail s) then inr (DFull, s)
  else
    let '(r, n') := nread CHUNK (nt s) in
    match r with
    | RData d => inl {| off := off s; avail := avail s ++ d; nt := n'; tr := tr s |}
    | RTimeout => inr (DTimeout, {| off := off s; avail := avail s; nt := n'; tr := tr s |})
    | RErr => inr (DNetErr, {| off := off s; avail := avail s; nt := n'; tr := tr s |})
    end.

(* io.ReadFull(cx, buf[:k]) outside matching: Connection.Read serves buffered bytes first (and
   resets the buffer when it becomes empty), then reads the underlying connection. *)
Fixpoint net_read_full (g : nat) (need : nat) (acc : list byte) (n : net) : option (list byte) * net :=
  match need with
  | O => (Some acc, n)
  | _ =>
    match g with
    | O => (None, n)
    | S g' =>
      let '(r, n') := nread need n in
      match r with
      | RData d => net_read_full g' (need - length d) (acc ++ d) n'
      | _ => (None, n')
      end
    end
  end.

Definition read_full_st (k : nat) (s : st) : option (list byte) * st :=
  if k <=? length (avail s) then
    (Some (firstn k (avail s)),
     {| off := (if k =? length (avail s) then 0 else off s + k); avail := skipn k (avail s); nt := nt s; tr := tr s |})
  else
    let '(r, n') := net_read_full (S k) (k - length (avail s)) (avail s) (nt s) in
    (r, {| off := 0; avail := []; nt := n'; tr := tr s |}).

(* lastMatchedRouteIdx / lastNeedsMoreIdx: None = -1 *)
Definition leo (i : nat) (o : option nat) := match o with None => false | Some j => i <=? j end.
Definition lto (o : option nat) (i : nat) := match o with None => true | Some j => j <? i end.

Inductive stat := SMore | SNo | SYes.
Definition stmap := nat -> option stat.     (* routesStatus *)
Definition st0 : stmap := fun _ => None.
Definition setst (m : stmap) (i : nat) (v : stat) : stmap := fun j => if j =? i then Some v else m j.
Definition is_no (o : option stat) := match o with Some SNo => true | _ => false end.
Definition is_more (o : option stat) := match o with Some SMore => true | _ => false end.

(* one pass either ends the invocation or yields the updated loop variables *)
Inductive passres :=
| PFinal (r : res)
| PState (lm lnm : option nat) (stt : stmap) (s : st).

Section Level.
Variable sub : nat -> list route -> Z -> (st -> res) -> st -> res.   (* Compile one nesting level down *)
Variable depth : nat.

(* the handler stack of one matched route [idx]; [next] is what the last handler calls *)
Fixpoint chain (idx : nat) (hs : list handler) (next : st -> res) (s : st) : res :=
  match hs with
  | [] => next s
  | HTerm :: _ => Done s
  | HFail :: _ => Done (emit (EHErr depth idx) s)
  | HWrap :: r =>
      (* Connection.Wrap: the new Connection starts with an empty matching buffer; the bytes still
         buffered in the old one are delivered first by the reader below (the old Connection) *)
      chain idx r next {| off := 0; avail := []; nt := npush (avail s) (nt s); tr := tr s |}
  | HCons k :: r =>
      match read_full_st k s with
      | (Some d, s') => chain idx r next (emit (ERead depth idx d) s')
      | (None, s') => Done (emit (EHErr depth idx) s')
      end
  | HSub rs t :: r => sub (S depth) rs t (chain idx r next) s
  end.

(* one pass of `for i, route := range routes`, from route i on ([rest] = routes[i:]) *)
Fixpoint pass (i : nat) (rest : list route) (lm lnm : option nat) (stt : stmap) (nm : bool) (s : st) {struct rest} : passres :=
  match rest with
  | [] => PState lm lnm stt s
  | Route mss hs :: rest' =>
    if leo i lm then pass (S i) rest' lm lnm stt nm s else
    if is_no (stt i) && leo i lnm then pass (S i) rest' lm lnm stt nm (emit (ESkip depth i (avail s)) s) else
    match anymatch mss (avail s) with
    | More => if nm then pass (S i) rest' lm (Some i) (setst stt i SMore) nm s
              else PState lm (Some i) (setst stt i SMore) s
    | Fail => PFinal (Done (emit (EDrop depth DMatchErr) s))
    | Panic => PFinal (Crash (emit (EPanic depth i) s))
    | No => pass (S i) rest' lm lnm (setst stt i SNo) nm s
    | Yes =>
        let s1 := emit (ERun depth i (avail s)) (clear s) in
        match chain i hs (fun st' => Cont st') s1 with
        | Cont s2 => pass (S i) rest' (Some i) (Some i) (setst stt i SYes) nm (emit (ENext depth i (avail s2)) s2)
        | r => PFinal r
        end
    end
  end.

(* `indetermined > 0` *)
Definition undecided (n : nat) (lm : option nat) (stt : stmap) : bool :=
  existsb (fun i => lto lm i && is_more (stt i)) (seq 0 n).

(* the passes: label `loop:` .. `goto loop`; g bounds their number *)
Fixpoint loop (rs : list route) (deadline : Z) (next : st -> res)
              (g : nat) (lm lnm : option nat) (stt : stmap) (nm : bool) (s : st) {struct g} : res :=
  match g with
  | O => Exhausted s
  | S g' =>
    let s := arm deadline s in
    match (if nm then prefetch s else inl s) with
    | inr (w, s') => Done (emit (EDrop depth w) s')
    | inl s' =>
      match pass 0 rs lm lnm stt nm s' with
      | PFinal r => r
      | PState lm' lnm' stt' s'' =>
          if (match lm' with Some j => S j =? length rs | None => length rs =? 0 end) then
            let s3 := if last_exit_clears && (match lm' with None => true | _ => false end) then clear s'' else s'' in
            next (emit (EFallback depth (avail s3)) s3)
          else if undecided (length rs) lm' stt'
          then loop rs deadline next g' lm' lnm' stt' true s''
          else let s3 := clear s'' in next (emit (EFallback depth (avail s3)) s3)
      end
    end
  end.
End Level.

(* RouteList.Compile(logger, timeout, next).Handle(cx); fuel bounds nesting and the number of passes *)
Fixpoint compile (fuel : nat) (depth : nat) (rs : list route) (timeout : Z) (next : st -> res) (s0 : st) {struct fuel} : res :=
  match fuel with
  | O => Exhausted s0
  | S fuel' => loop (compile fuel') depth rs (now (nt s0) + timeout)%Z next fuel None None st0 false s0
  end.

(* Server.handle: compiled with nopHandler as next, then the connection is closed *)
Definition nop (s : st) : res := Cont s.
Definition serve (fuel : nat) (rs : list route) (timeout : Z) (s0 : st) : res := compile fuel 0 rs timeout nop s0.

Definition evs (s : st) : list ev := map snd (tr s).
End Net.

Arguments off {net}. Arguments avail {net}. Arguments nt {net}. Arguments tr {net}.
Arguments Done {net}. Arguments Cont {net}. Arguments Crash {net}. Arguments Exhausted {net}.
Arguments res_st {net}. Arguments evs {net}. Arguments PFinal {net}. Arguments PState {net}.

(* ---------------------------------------------------------------- the untimed scripted network *)
(* What the C02 engine's scripted net.Conn does: every Read pops one script item. *)
Inductive arrival := Chunk (d : list byte) | ATimeout | ANetErr.
Definition snet := list arrival.
Definition snow (_ : snet) : Z := 0%Z.
Definition sset_dl (_ : option Z) (n : snet) : snet := n.
Definition sread (max : nat) (n : snet) : rres * snet :=
  match n with
  | [] => (RErr, [])                         (* script exhausted: EOF *)
  | Chunk d :: r =>
      (RData (firstn max d), match skipn max d with [] => r | d' => Chunk d' :: r end)
  | ATimeout :: r => (RTimeout, r)
  | ANetErr :: r => (RErr, r)
  end.

Definition spush (b : list byte) (n : snet) : snet := match b with [] => n | _ => Chunk b :: n end.

Definition s_init (pre : list byte) (n : snet) : st snet := {| off := 0; avail := pre; nt := n; tr := [] |}.
Definition s_serve (fuel : nat) (rs : list route) (pre : list byte) (n : snet) : res snet :=
  serve snet snow sset_dl sread spush fuel rs 0%Z (s_init pre n).

(* scripted primitive matchers used by engines and examples *)
Definition thr (k : nat) (v : verdict) : list byte -> verdict :=
  fun b => if length b <? k then More else v.
(* needs k+1 bytes; answers [y] when byte k equals c, else [n] *)
Definition at_byte (k : nat) (c : byte) (y n : verdict) : list byte -> verdict :=
  fun b => match nth_error b k with None => More | Some x => if Byte.eqb x c then y else n end.
