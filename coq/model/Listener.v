(* Listener wrapper (layer4/listener.go) as a channel-level transition system.  Definitions only
   (lemmas: proofs/ListenerProofs.v).

   Goroutines and the steps they take (one event = one step; the event list of [run] is the
   schedule oracle, so every interleaving of the modelled steps is an execution):

     loop      EArrive c o    conn, err := l.Listener.Accept() returned c; l.wg.Add(1); go l.handle(c)
                              (o = what compiledRoute.Handle will do with c: decided by routes + stream)
               ETempErr       temporary accept error while !l.closed: continue
               EAcceptFail    permanent error (or temporary one after Close): break;
                              go func() { l.wg.Wait(); close(l.connChan) }()
               ECloseDone     close(l.done)
               EDrainRecv     for conn := range l.connChan { conn.Close() }   (one iteration)
               EDrainExit     the range ends: channel closed and empty
     waiter    EWaiter        l.wg.Wait() returned (counter is zero); close(l.connChan)
     handle c  ERun c         compiledRoute.Handle(cx) ran: either it returned without reaching
                              listenerHandler (Consumed / Rejected: err is not errHijacked) or it is
                              inside pipeConnection in front of  l.connChan <- conn
               ESend c        l.connChan <- conn   (blocks while the channel is full)
               EWgDone c      deferred: l.wg.Done()
               EConnClose c   deferred: conn.Close() when err is not errHijacked
     consumer  EAcceptRecv    Accept: case conn, ok := <-l.connChan  (conn, or ErrClosed when !ok)
               EAcceptDone    Accept: case <-l.done: ErrClosed
               EClose         l.Close(): closed.Store(true); l.Listener.Close()

   The channel capacity [cap] is runtime.GOMAXPROCS(0) in WrapListener; here it is a parameter. *)
From Coq Require Import List Arith Bool.
Import ListNotations.

Definition conn := nat.

Inductive outcome := Consumed | Rejected | Hijack.

Definition outcome_eqb (a b : outcome) : bool :=
  match a, b with
  | Consumed, Consumed | Rejected, Rejected | Hijack, Hijack => true
  | _, _ => false
  end.

Definition is_hijack (o : outcome) : bool := match o with Hijack => true | _ => false end.

(* where a handle goroutine stands *)
Inductive hstate :=
| HStart (o : outcome)   (* spawned; compiledRoute.Handle has not finished/reached the send *)
| HSending               (* in pipeConnection, in front of the send *)
| HSent                  (* sent; returning errHijacked; deferred wg.Done pending *)
| HFailed                (* Handle returned something else; deferred wg.Done and conn.Close pending *)
| HWgDone.               (* wg.Done executed; conn.Close pending *)

Inductive lstate := LAccept | LBroke | LDrain | LExit.

Definition lstate_eqb (a b : lstate) : bool :=
  match a, b with
  | LAccept, LAccept | LBroke, LBroke | LDrain, LDrain | LExit, LExit => true
  | _, _ => false
  end.

Record state := mkState {
  loop        : lstate;
  hs          : conn -> option hstate;   (* running handle goroutines *)
  wg          : nat;
  chan        : list conn;               (* l.connChan, FIFO *)
  chan_closed : bool;
  done        : bool;                    (* l.done closed *)
  closed_flag : bool;                    (* l.closed *)
  arrived     : list (conn * outcome);   (* ghost: connections accepted by the loop, latest first *)
  delivered   : list conn;               (* returned by Accept, latest first *)
  closedc     : list conn;               (* conn.Close() calls by handle or by the drain, latest first *)
  accept_errs : nat;                     (* Accept calls that returned ErrClosed *)
  panicked    : bool                     (* send on closed channel / negative WaitGroup counter *)
}.

Definition init : state :=
  mkState LAccept (fun _ => None) 0 [] false false false [] [] [] 0 false.

Inductive event :=
| EArrive (c : conn) (o : outcome)
| ETempErr
| EAcceptFail
| ECloseDone
| EDrainRecv
| EDrainExit
| EWaiter
| ERun (c : conn)
| ESend (c : conn)
| EWgDone (c : conn)
| EConnClose (c : conn)
| EAcceptRecv
| EAcceptDone
| EClose.

Definition upd (f : conn -> option hstate) (c : conn) (v : option hstate) : conn -> option hstate :=
  fun x => if Nat.eqb x c then v else f x.

Definition known (s : state) (c : conn) : bool :=
  existsb (fun p => Nat.eqb (fst p) c) (arrived s).

Definition set_hs (s : state) (h : conn -> option hstate) : state :=
  mkState (loop s) h (wg s) (chan s) (chan_closed s) (done s) (closed_flag s) (arrived s)
          (delivered s) (closedc s) (accept_errs s) (panicked s).

Definition step (cap : nat) (s : state) (e : event) : option state :=
  match e with
  | EArrive c o =>
      match loop s with
      | LAccept =>
          if closed_flag s || known s c then None
          else Some (mkState LAccept (upd (hs s) c (Some (HStart o))) (S (wg s)) (chan s) (chan_closed s)
                             (done s) (closed_flag s) ((c, o) :: arrived s) (delivered s) (closedc s)
                             (accept_errs s) (panicked s))
      | _ => None
      end
  | ETempErr =>
      match loop s with
      | LAccept => if closed_flag s then None else Some s
      | _ => None
      end
  | EAcceptFail =>
      match loop s with
      | LAccept => Some (mkState LBroke (hs s) (wg s) (chan s) (chan_closed s) (done s) (closed_flag s)
                                 (arrived s) (delivered s) (closedc s) (accept_errs s) (panicked s))
      | _ => None
      end
  | ECloseDone =>
      match loop s with
      | LBroke => Some (mkState LDrain (hs s) (wg s) (chan s) (chan_closed s) true (closed_flag s)
                                (arrived s) (delivered s) (closedc s) (accept_errs s) (panicked s))
      | _ => None
      end
  | EDrainRecv =>
      match loop s, chan s with
      | LDrain, c :: rest =>
          Some (mkState LDrain (hs s) (wg s) rest (chan_closed s) (done s) (closed_flag s)
                        (arrived s) (delivered s) (c :: closedc s) (accept_errs s) (panicked s))
      | _, _ => None
      end
  | EDrainExit =>
      match loop s, chan s with
      | LDrain, [] =>
          if chan_closed s
          then Some (mkState LExit (hs s) (wg s) [] true (done s) (closed_flag s)
                             (arrived s) (delivered s) (closedc s) (accept_errs s) (panicked s))
          else None
      | _, _ => None
      end
  | EWaiter =>
      match loop s with
      | LAccept => None
      | _ =>
          if chan_closed s then None
          else match wg s with
               | O => Some (mkState (loop s) (hs s) 0 (chan s) true (done s) (closed_flag s)
                                    (arrived s) (delivered s) (closedc s) (accept_errs s) (panicked s))
               | S _ => None
               end
      end
  | ERun c =>
      match hs s c with
      | Some (HStart o) => Some (set_hs s (upd (hs s) c (Some (if is_hijack o then HSending else HFailed))))
      | _ => None
      end
  | ESend c =>
      match hs s c with
      | Some HSending =>
          if Nat.ltb (length (chan s)) cap
          then if chan_closed s
               then Some (mkState (loop s) (upd (hs s) c (Some HSent)) (wg s) (chan s) (chan_closed s) (done s)
                                  (closed_flag s) (arrived s) (delivered s) (closedc s) (accept_errs s) true)
               else Some (mkState (loop s) (upd (hs s) c (Some HSent)) (wg s) (chan s ++ [c]) (chan_closed s) (done s)
                                  (closed_flag s) (arrived s) (delivered s) (closedc s) (accept_errs s) (panicked s))
          else None
      | _ => None
      end
  | EWgDone c =>
      match hs s c with
      | Some HSent =>
          Some (mkState (loop s) (upd (hs s) c None) (pred (wg s)) (chan s) (chan_closed s) (done s)
                        (closed_flag s) (arrived s) (delivered s) (closedc s) (accept_errs s)
                        (panicked s || Nat.eqb (wg s) 0))
      | Some HFailed =>
          Some (mkState (loop s) (upd (hs s) c (Some HWgDone)) (pred (wg s)) (chan s) (chan_closed s) (done s)
                        (closed_flag s) (arrived s) (delivered s) (closedc s) (accept_errs s)
                        (panicked s || Nat.eqb (wg s) 0))
      | _ => None
      end
  | EConnClose c =>
      match hs s c with
      | Some HWgDone =>
          Some (mkState (loop s) (upd (hs s) c None) (wg s) (chan s) (chan_closed s) (done s)
                        (closed_flag s) (arrived s) (delivered s) (c :: closedc s) (accept_errs s) (panicked s))
      | _ => None
      end
  | EAcceptRecv =>
      match chan s with
      | c :: rest =>
          Some (mkState (loop s) (hs s) (wg s) rest (chan_closed s) (done s) (closed_flag s)
                        (arrived s) (c :: delivered s) (closedc s) (accept_errs s) (panicked s))
      | [] =>
          if chan_closed s
          then Some (mkState (loop s) (hs s) (wg s) [] true (done s) (closed_flag s)
                             (arrived s) (delivered s) (closedc s) (S (accept_errs s)) (panicked s))
          else None
      end
  | EAcceptDone =>
      if done s
      then Some (mkState (loop s) (hs s) (wg s) (chan s) (chan_closed s) true (closed_flag s)
                         (arrived s) (delivered s) (closedc s) (S (accept_errs s)) (panicked s))
      else None
  | EClose =>
      Some (mkState (loop s) (hs s) (wg s) (chan s) (chan_closed s) (done s) true
                    (arrived s) (delivered s) (closedc s) (accept_errs s) (panicked s))
  end.

Fixpoint run (cap : nat) (s : state) (es : list event) : option state :=
  match es with
  | [] => Some s
  | e :: r => match step cap s e with Some s' => run cap s' r | None => None end
  end.

Definition reachable (cap : nat) (s : state) : Prop := exists es, run cap init es = Some s.

(* steps of the wrapper's own goroutines (loop after Close, waiter, handlers); the others are the
   environment: arrivals, temporary errors and the consumer's Accept/Close calls *)
Definition system_event (e : event) : bool :=
  match e with
  | EAcceptFail | ECloseDone | EDrainRecv | EDrainExit | EWaiter
  | ERun _ | ESend _ | EWgDone _ | EConnClose _ => true
  | _ => false
  end.

(* all goroutines of the wrapper have finished *)
Definition final (s : state) : Prop :=
  loop s = LExit /\ (forall c, hs s c = None) /\ chan s = [] /\ chan_closed s = true.

(* remaining work of the wrapper's goroutines: the termination measure *)
Definition hweight (h : option hstate) : nat :=
  match h with
  | None => 0
  | Some (HStart _) => 4
  | Some HSending => 3
  | Some HSent => 1
  | Some HFailed => 2
  | Some HWgDone => 1
  end.

Definition counts_wg (h : option hstate) : nat :=
  match h with
  | Some (HStart _) | Some HSending | Some HSent | Some HFailed => 1
  | _ => 0
  end.

(* the handler still holds the connection (it has neither sent nor closed it) *)
Definition owns (h : option hstate) : nat :=
  match h with
  | Some (HStart _) | Some HSending | Some HFailed | Some HWgDone => 1
  | _ => 0
  end.

Fixpoint sumf (w : option hstate -> nat) (f : conn -> option hstate) (l : list conn) : nat :=
  match l with [] => 0 | c :: r => w (f c) + sumf w f r end.

Definition conns (s : state) : list conn := map fst (arrived s).

Definition lweight (l : lstate) : nat :=
  match l with LAccept => 3 | LBroke => 2 | LDrain => 1 | LExit => 0 end.

Definition measure (s : state) : nat :=
  sumf hweight (hs s) (conns s) + length (chan s) + lweight (loop s) + (if chan_closed s then 0 else 1).

Definition outcome_of (s : state) (c : conn) : option outcome :=
  match find (fun p => Nat.eqb (fst p) c) (arrived s) with Some p => Some (snd p) | None => None end.

Fixpoint count_system (es : list event) : nat :=
  match es with [] => 0 | e :: r => (if system_event e then 1 else 0) + count_system r end.

(* ---- where the handle goroutine registers with the WaitGroup ----

   [step] above has l.wg.Add(1) inside EArrive: the loop registers the handler before `go
   l.handle(conn)`.  Whether the source does that is read by tools/l4gen
   (gen/Shape.v: layer4_listener_wg_add_before_go).  [step2 add_in_loop] follows the fact: with
   add_in_loop = false the loop only spawns the goroutine (LSpawn) and the goroutine registers
   itself when it first runs (LRegister), at any later point of the schedule. *)

Inductive levent :=
| LE (e : event)
| LSpawn (c : conn) (o : outcome)      (* loop: Accept returned c; go l.handle(c)  -- nothing registered yet *)
| LRegister (c : conn).                (* handle: l.wg.Add(1) as its first statement *)

Record state2 := mkState2 { base : state; spawned : list (conn * outcome) }.

Definition init2 : state2 := mkState2 init [].

Definition register (s : state) (c : conn) (o : outcome) : state :=
  mkState (loop s) (upd (hs s) c (Some (HStart o))) (S (wg s)) (chan s) (chan_closed s) (done s) (closed_flag s)
          ((c, o) :: arrived s) (delivered s) (closedc s) (accept_errs s) (panicked s).

Fixpoint take_spawned (c : conn) (l : list (conn * outcome)) : option (outcome * list (conn * outcome)) :=
  match l with
  | [] => None
  | (x, o) :: r =>
      if Nat.eqb x c then Some (o, r)
      else match take_spawned c r with Some (o', r') => Some (o', (x, o) :: r') | None => None end
  end.

Definition step2 (add_in_loop : bool) (cap : nat) (s : state2) (e : levent) : option state2 :=
  match e with
  | LE e0 =>
      if add_in_loop then
        match step cap (base s) e0 with Some b => Some (mkState2 b (spawned s)) | None => None end
      else
        match e0 with
        | EArrive _ _ => None
        | _ => match step cap (base s) e0 with Some b => Some (mkState2 b (spawned s)) | None => None end
        end
  | LSpawn c o =>
      if add_in_loop then None
      else match loop (base s) with
           | LAccept =>
               if closed_flag (base s) || known (base s) c || existsb (fun p => Nat.eqb (fst p) c) (spawned s)
               then None else Some (mkState2 (base s) ((c, o) :: spawned s))
           | _ => None
           end
  | LRegister c =>
      if add_in_loop then None
      else match take_spawned c (spawned s) with
           | Some (o, r) => Some (mkState2 (register (base s) c o) r)
           | None => None
           end
  end.

Fixpoint run2 (add_in_loop : bool) (cap : nat) (s : state2) (es : list levent) : option state2 :=
  match es with
  | [] => Some s
  | e :: r => match step2 add_in_loop cap s e with Some s' => run2 add_in_loop cap s' r | None => None end
  end.
