(* OpenVPN wire-message codecs: modules/l4openvpn/messages.go
     MessageHeader / MessagePlain / MessageAuth / MessageCrypt / WrappedKey / MessageCrypt2
     FromBytes, FromBytesHeadless, ToBytes.
   Definitions only (lemmas: proofs/CodecOpenVpnProofs.v).

   Conventions: Go's fixed-width integers are N (the field width is part of [*_wf]); []byte
   fields are [list byte]; a slice expression / index that would panic in Go yields [RPanic];
   FromBytes* are modelled on a freshly allocated (zero) receiver, which is how every call site
   in the module uses them; the pointer fields Digest / Cipher are not part of the wire image
   (after FromBytes* they are AuthDigestDefault / CryptCipherDefault for crypt and crypt2, and the
   caller-supplied value for auth) and are carried by model/MatchOpenVpn.v where they matter.
   The [hdr == nil] branch (ErrMissingReusableHeader) is unreachable from the module's own call
   sites (the header is always freshly parsed) and is not modelled. *)
From Coq Require Import List NArith ZArith Bool Arith.
From Coq.Strings Require Import Byte.
From L4.gen Require Import Consts.
From L4.model Require Import GoBase.
Import ListNotations.

(* ---- sizes (messages.go const block); generated constants where the translator has them,
        crypto/* sizes written out (md5.Size, sha256.Size, sha512.Size) and tied by the engine's
        constants case ---- *)
Definition zn (z : Z) : nat := Z.to_nat z.
Definition sz_len : nat := zn l4openvpn_LengthBytesTotal.
Definition sz_hdr : nat := zn l4openvpn_OpcodeKeyIDBytesTotal.
Definition sz_pid : nat := zn l4openvpn_PacketIDBytesTotal.
Definition sz_sid : nat := zn l4openvpn_SessionIDBytesTotal.
Definition sz_ts : nat := zn l4openvpn_TimestampBytesTotal.
Definition sz_ack : nat := zn l4openvpn_AckPacketIDsCountBytesTotal.
Definition sz_mdtype : nat := zn l4openvpn_MetaDataTypeBytesTotal.
Definition sz_key : nat := zn l4openvpn_StaticKeyBytesTotal.
Definition sz_key_half : nat := zn l4openvpn_StaticKeyBytesHalf.
Definition sz_key_quarter : nat := zn l4openvpn_StaticKeyBytesQuarter.
Definition auth_hmac_max : nat := 64.   (* sha512.Size *)
Definition auth_hmac_min : nat := 16.   (* md5.Size *)
Definition crypt_hmac : nat := 32.      (* sha256.Size *)
Definition wk_max : nat := zn l4openvpn_WrappedKeyBytesMax.
Definition wk_min : nat := crypt_hmac + sz_key + sz_len.
Definition md_payload_max : nat := wk_max - sz_mdtype - wk_min.

Definition plain_hl : nat := sz_sid + sz_ack + sz_pid.
Definition plain_total : nat := sz_hdr + plain_hl.
Definition auth_max_hl : nat := plain_hl + auth_hmac_max + sz_pid + sz_ts.
Definition auth_max : nat := sz_hdr + auth_max_hl.
Definition auth_min_hl : nat := plain_hl + auth_hmac_min + sz_pid + sz_ts.
Definition auth_min : nat := sz_hdr + auth_min_hl.
Definition crypt_hl : nat := plain_hl + sz_pid + sz_ts + crypt_hmac.
Definition crypt_total : nat := sz_hdr + crypt_hl.
Definition crypt2_min_hl : nat := crypt_hl + sz_len + crypt_hmac + sz_key.
Definition crypt2_min : nat := sz_hdr + crypt2_min_hl.
Definition crypt2_max_hl : nat := crypt2_min_hl + sz_mdtype + md_payload_max.
Definition crypt2_max : nat := sz_hdr + crypt2_max_hl.

Definition op_v2 : N := Z.to_N l4openvpn_OpcodeControlHardResetClientV2.
Definition op_v3 : N := Z.to_N l4openvpn_OpcodeControlHardResetClientV3.
Definition keyid_mask : N := Z.to_N l4openvpn_KeyIDMask.
Definition op_shift : N := Z.to_N l4openvpn_OpcodeShift.

(* crypto.go AuthDigests: the Size column, in table order (MD5, SHA-1, RIPEMD-160, SHA-224, SHA-256,
   SHA-384, SHA-512, SHA-512/224, SHA-512/256, SHA3-224/256/384/512, BLAKE2s-256, BLAKE2b-512,
   SHAKE-128, SHAKE-256, MD5+SHA1).  Tied to the source by the engine's constants case. *)
Definition auth_digests : list nat :=
  [16; 20; 20; 28; 32; 48; 64; 28; 32; 28; 32; 48; 64; 32; 64; 32; 64; 36]%nat.
Definition digest_default : nat := 4. (* AuthDigestFindByName("SHA-256") *)
Definition digest_size (d : nat) : nat := nth d auth_digests 0%nat.
(* AuthDigestSizes: the presence-array construction of crypto.go: ascending, without repetition *)
Definition auth_digest_sizes : list nat :=
  filter (fun s => existsb (Nat.eqb s) auth_digests) (seq 0 (auth_hmac_max + 1)).
Definition size_ok (n : nat) : bool := existsb (Nat.eqb n) auth_digest_sizes.

(* ---- result of FromBytes* ---- *)
Inductive oerr := ErrInvalidSourceLength | ErrInvalidHeaderOpcode | ErrInvalidHMACLength.
Inductive res (A : Type) := ROk (a : A) | RErr (e : oerr) | RPanic.
Arguments ROk {A} a.
Arguments RErr {A} e.
Arguments RPanic {A}.

Definition byte_of (n : N) : byte := match Byte.of_N n with Some b => b | None => x00 end.
Definition u8 (n : N) : list byte := [byte_of (n mod 256)].

(* total slice used once bounds are established; [slice] = Some (sl ..) when in bounds *)
Definition sl (s : list byte) (a b : nat) : list byte := firstn (b - a) (skipn a s).

(* ---- MessageHeader ---- *)
Record header := { opcode : N; keyid : N }.
Definition header_wf (h : header) : Prop := (opcode h < 32)%N /\ (keyid h < 8)%N.

Definition header_from_bytes (src : list byte) : res header :=
  if negb (length src =? sz_hdr)%nat then RErr ErrInvalidSourceLength else
  match index src 0 with
  | Some b => ROk {| keyid := N.land (bN b) keyid_mask; opcode := N.shiftr (bN b) op_shift |}
  | None => RPanic
  end.
(* msg.KeyID | (msg.Opcode << OpcodeShift) in uint8 arithmetic *)
Definition header_to_bytes (h : header) : list byte :=
  [byte_of (N.lor (keyid h mod 256) ((N.shiftl (opcode h) op_shift) mod 256))].

(* ---- MessagePlain ---- *)
Record plain := { p_hdr : header; p_sid : N; p_prev : N; p_pid : N }.
Definition plain_wf (m : plain) : Prop :=
  header_wf (p_hdr m) /\ (p_sid m < 2 ^ 64)%N /\ (p_prev m < 256)%N /\ (p_pid m < 2 ^ 32)%N.

Definition plain_from_headless (src : list byte) (h : header) : res plain :=
  if negb (length src =? plain_hl)%nat then RErr ErrInvalidSourceLength else
  match slice src 0 sz_sid, index src sz_sid, slice src (length src - sz_pid) (length src) with
  | Some a, Some b, Some c => ROk {| p_hdr := h; p_sid := be_N a; p_prev := bN b; p_pid := be_N c |}
  | _, _, _ => RPanic
  end.

(* the common head of every FromBytes: length gate done by the caller, then header + opcode *)
Definition with_header {A} (src : list byte) (want : N) (k : list byte -> header -> res A) : res A :=
  match slice src 0 sz_hdr with
  | None => RPanic
  | Some hb =>
      match header_from_bytes hb with
      | RErr e => RErr e
      | RPanic => RPanic
      | ROk h =>
          if negb (opcode h =? want)%N then RErr ErrInvalidHeaderOpcode else
          match slice src sz_hdr (length src) with
          | None => RPanic
          | Some body => k body h
          end
      end
  end.

Definition plain_from_bytes (src : list byte) : res plain :=
  if negb (length src =? plain_total)%nat then RErr ErrInvalidSourceLength else
  with_header src op_v2 plain_from_headless.

Definition plain_to_bytes (m : plain) : list byte :=
  header_to_bytes (p_hdr m) ++ N_to_be 8 (p_sid m) ++ u8 (p_prev m) ++ N_to_be 4 (p_pid m).

(* ---- MessageAuth ---- *)
Record auth := { a_hdr : header; a_sid : N; a_hmac : list byte; a_rpid : N; a_rts : N; a_prev : N; a_pid : N }.
Definition auth_wf (m : auth) : Prop :=
  header_wf (a_hdr m) /\ (a_sid m < 2 ^ 64)%N /\ size_ok (length (a_hmac m)) = true /\
  (a_rpid m < 2 ^ 32)%N /\ (a_rts m < 2 ^ 32)%N /\ (a_prev m < 256)%N /\ (a_pid m < 2 ^ 32)%N.

Definition auth_from_headless (src : list byte) (h : header) : res auth :=
  if (length src <? auth_min_hl)%nat || (auth_max_hl <? length src)%nat then RErr ErrInvalidSourceLength else
  let off1 := sz_sid in
  let off2 := (length src - 2 * sz_pid - sz_hdr - sz_ts)%nat in
  match slice src 0 sz_sid, slice src off1 off2 with
  | Some a, Some hm =>
      if negb (size_ok (length hm)) then RErr ErrInvalidHMACLength else
      match slice src off2 (off2 + sz_pid), slice src (off2 + sz_pid) (off2 + sz_pid + sz_ts),
            index src (off2 + sz_pid + sz_ts), slice src (off2 + sz_pid + sz_ts + sz_hdr) (length src) with
      | Some r, Some t, Some pv, Some pd =>
          ROk {| a_hdr := h; a_sid := be_N a; a_hmac := hm; a_rpid := be_N r; a_rts := be_N t;
                 a_prev := bN pv; a_pid := be_N pd |}
      | _, _, _, _ => RPanic
      end
  | _, _ => RPanic
  end.

Definition auth_from_bytes (src : list byte) : res auth :=
  if (length src <? auth_min)%nat || (auth_max <? length src)%nat then RErr ErrInvalidSourceLength else
  with_header src op_v2 auth_from_headless.

Definition auth_to_bytes (m : auth) : list byte :=
  header_to_bytes (a_hdr m) ++ N_to_be 8 (a_sid m) ++ a_hmac m ++ N_to_be 4 (a_rpid m) ++
  N_to_be 4 (a_rts m) ++ u8 (a_prev m) ++ N_to_be 4 (a_pid m).
(* ToBytesAuth: what the HMAC is computed over *)
Definition auth_to_bytes_auth (m : auth) : list byte :=
  N_to_be 4 (a_rpid m) ++ N_to_be 4 (a_rts m) ++ header_to_bytes (a_hdr m) ++ N_to_be 8 (a_sid m) ++
  u8 (a_prev m) ++ N_to_be 4 (a_pid m).

(* ---- MessageCrypt ---- *)
Record crypt := { c_hdr : header; c_sid : N; c_rpid : N; c_rts : N; c_hmac : list byte; c_enc : list byte;
                  c_prev : N; c_pid : N (* filled by FromBytesCrypt after decryption; zero after FromBytes* *) }.
Definition crypt_wf (m : crypt) : Prop :=
  header_wf (c_hdr m) /\ (c_sid m < 2 ^ 64)%N /\ (c_rpid m < 2 ^ 32)%N /\ (c_rts m < 2 ^ 32)%N /\
  length (c_hmac m) = crypt_hmac /\ length (c_enc m) = (sz_hdr + sz_pid)%nat /\ c_prev m = 0%N /\ c_pid m = 0%N.

Definition crypt_from_headless (src : list byte) (h : header) : res crypt :=
  if negb (length src =? crypt_hl)%nat then RErr ErrInvalidSourceLength else
  let o1 := sz_sid in let o2 := (sz_sid + sz_pid)%nat in let o3 := (o2 + sz_ts)%nat in
  let o4 := (o3 + digest_size digest_default)%nat in
  match slice src 0 sz_sid, slice src o1 o2, slice src o2 o3, slice src o3 o4, slice src o4 (length src) with
  | Some a, Some r, Some t, Some hm, Some en =>
      ROk {| c_hdr := h; c_sid := be_N a; c_rpid := be_N r; c_rts := be_N t; c_hmac := hm; c_enc := en;
             c_prev := 0; c_pid := 0 |}
  | _, _, _, _, _ => RPanic
  end.

Definition crypt_from_bytes (src : list byte) : res crypt :=
  if negb (length src =? crypt_total)%nat then RErr ErrInvalidSourceLength else
  with_header src op_v2 crypt_from_headless.

Definition crypt_to_bytes (m : crypt) : list byte :=
  header_to_bytes (c_hdr m) ++ N_to_be 8 (c_sid m) ++ N_to_be 4 (c_rpid m) ++ N_to_be 4 (c_rts m) ++
  c_hmac m ++ c_enc m.
Definition crypt_to_bytes_auth (m : crypt) : list byte :=
  header_to_bytes (c_hdr m) ++ N_to_be 8 (c_sid m) ++ N_to_be 4 (c_rpid m) ++ N_to_be 4 (c_rts m) ++
  u8 (c_prev m) ++ N_to_be 4 (c_pid m).
(* FromBytesCrypt: the decrypted tail *)
Definition crypt_from_bytes_crypt (m : crypt) (pl : list byte) : res crypt :=
  if negb (length pl =? length (c_enc m))%nat then RErr ErrInvalidSourceLength (* ErrInvalidPlainLength *) else
  match index pl 0, slice pl sz_hdr (length pl) with
  | Some b, Some t =>
      ROk {| c_hdr := c_hdr m; c_sid := c_sid m; c_rpid := c_rpid m; c_rts := c_rts m; c_hmac := c_hmac m;
             c_enc := c_enc m; c_prev := bN b; c_pid := be_N t |}
  | _, _ => RPanic
  end.

(* ---- WrappedKey (wire part: HMAC, Encrypted, trailing length) ---- *)
Record wkey := { w_hmac : list byte; w_enc : list byte }.
Definition wkey_wf (k : wkey) : Prop :=
  length (w_hmac k) = crypt_hmac /\ (sz_key <= length (w_enc k))%nat /\
  (length (w_hmac k) + length (w_enc k) + sz_len <= wk_max)%nat.

Definition wkey_from_bytes (src : list byte) : res wkey :=
  if (length src <? wk_min)%nat || (wk_max <? length src)%nat then RErr ErrInvalidSourceLength else
  match slice src (length src - sz_len) (length src) with
  | None => RPanic
  | Some lb =>
      if negb (N.of_nat (length src) =? be_N lb)%N then RErr ErrInvalidSourceLength else
      match slice src 0 crypt_hmac, slice src crypt_hmac (length src - sz_len) with
      | Some hm, Some en => ROk {| w_hmac := hm; w_enc := en |}
      | _, _ => RPanic
      end
  end.
(* uint16(cap(dst)) with cap = len(HMAC)+len(Encrypted)+LengthBytesTotal *)
Definition wkey_to_bytes (k : wkey) : list byte :=
  w_hmac k ++ w_enc k ++ N_to_be 2 (N.of_nat (length (w_hmac k) + length (w_enc k) + sz_len) mod 65536).

(* ---- MessageCrypt2 ---- *)
Record crypt2 := { r_crypt : crypt; r_wk : wkey }.
Definition crypt2_wf (m : crypt2) : Prop := crypt_wf (r_crypt m) /\ wkey_wf (r_wk m).

Definition crypt2_from_headless (src : list byte) (h : header) : res crypt2 :=
  if (length src <? crypt2_min_hl)%nat || (crypt2_max_hl <? length src)%nat then RErr ErrInvalidSourceLength else
  match slice src 0 crypt_hl with
  | None => RPanic
  | Some cs =>
      match crypt_from_headless cs h with
      | RErr e => RErr e
      | RPanic => RPanic
      | ROk c =>
          match slice src crypt_hl (length src) with
          | None => RPanic
          | Some ws =>
              match wkey_from_bytes ws with
              | RErr e => RErr e
              | RPanic => RPanic
              | ROk w => ROk {| r_crypt := c; r_wk := w |}
              end
          end
      end
  end.

Definition crypt2_from_bytes (src : list byte) : res crypt2 :=
  if (length src <? crypt2_min)%nat || (crypt2_max <? length src)%nat then RErr ErrInvalidSourceLength else
  with_header src op_v3 crypt2_from_headless.

Definition crypt2_to_bytes (m : crypt2) : list byte := crypt_to_bytes (r_crypt m) ++ wkey_to_bytes (r_wk m).

(* ---- receivers that are not fresh ----
   FromBytes* write into an existing struct.  Fields they do not assign keep the receiver's previous value:
     MessageAuth:   Digest (the matcher pre-fills it with lastDigest; Authenticate/Sign leave the digest they used)
     MessageCrypt:  PrevPacketIDsCount / ThisPacketID (assigned only by FromBytesCrypt after decryption)
     MessageCrypt2: the same two fields of the embedded MessageCrypt (StaticKey / MetaData of the WrappedKey are not wire fields)
   None of these is READ by FromBytes*: the verdict (accepted / which error) and every assigned field are independent of the
   previous state, which is what the [_st] variants say by construction and the engine checks on reused and pre-filled receivers. *)
Definition auth_from_headless_st (dg0 : option nat) (src : list byte) (h : header) : res (auth * option nat) :=
  match auth_from_headless src h with ROk m => ROk (m, dg0) | RErr e => RErr e | RPanic => RPanic end.
Definition auth_from_bytes_st (dg0 : option nat) (src : list byte) : res (auth * option nat) :=
  match auth_from_bytes src with ROk m => ROk (m, dg0) | RErr e => RErr e | RPanic => RPanic end.
Definition crypt_keep (prev0 pid0 : N) (r : res crypt) : res crypt :=
  match r with
  | ROk m => ROk {| c_hdr := c_hdr m; c_sid := c_sid m; c_rpid := c_rpid m; c_rts := c_rts m; c_hmac := c_hmac m; c_enc := c_enc m;
                    c_prev := prev0; c_pid := pid0 |}
  | e => e
  end.
Definition crypt_from_headless_st (prev0 pid0 : N) (src : list byte) (h : header) : res crypt := crypt_keep prev0 pid0 (crypt_from_headless src h).
Definition crypt_from_bytes_st (prev0 pid0 : N) (src : list byte) : res crypt := crypt_keep prev0 pid0 (crypt_from_bytes src).
Definition crypt2_keep (prev0 pid0 : N) (r : res crypt2) : res crypt2 :=
  match r with
  | ROk m => match crypt_keep prev0 pid0 (ROk (r_crypt m)) with ROk c => ROk {| r_crypt := c; r_wk := r_wk m |} | RErr e => RErr e | RPanic => RPanic end
  | e => e
  end.
Definition crypt2_from_headless_st (prev0 pid0 : N) (src : list byte) (h : header) : res crypt2 := crypt2_keep prev0 pid0 (crypt2_from_headless src h).
Definition crypt2_from_bytes_st (prev0 pid0 : N) (src : list byte) : res crypt2 := crypt2_keep prev0 pid0 (crypt2_from_bytes src).

(* lengths each parser can accept (used by rejects_wrong_length) *)
Definition auth_len_ok (n : nat) : Prop := exists s, size_ok s = true /\ n = (plain_total + s + sz_pid + sz_ts)%nat.
