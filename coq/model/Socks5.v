(* C16 model: modules/l4socks/socks5_handler.go (Provision, Handle) and the server of
   github.com/things-go/go-socks5 v0.0.5 (ServeConn, authenticate, UserPassAuthenticator,
   statute.Parse*, handleRequest, PermitCommand, SendReply) as a function of the complete byte
   string the client sends (followed by EOF).  Definitions only (lemmas: proofs/Socks5Proofs.v).

   Outbound actions are explicit events: Resolve (DNS lookup), Dial (net.Dial "tcp"), ListenUDP
   (net.ListenUDP for UDP ASSOCIATE).  What the environment answers (does the name resolve, does
   the dial succeed, which address family the local end has) is an oracle record [env].
   Writes to the client are assumed to succeed.  In successful replies BND.ADDR and BND.PORT
   (ephemeral) are written as zeros; the harness masks them the same way.

   Constants of the library (statute package) are written here; the correspondence engine runs the
   real library on the same byte strings. *)
From Coq Require Import List ZArith NArith Bool Arith.
From Coq.Strings Require Import Byte.
From L4 Require Import Hex.
From L4.model Require Import GoBase.
Import ListNotations.

Definition bytes := list byte.

(* ------------------------------------------------------------------ caddy.Replacer.ReplaceAll(s, "") *)
(* caddy v2.8.4 replacer.go, func (r *Replacer) replace with treatUnknownAsEmpty = true, empty = "",
   no errors requested; [get] is the provider lookup (r.Get): None = unknown placeholder. *)
Definition phOpen : byte := x7b.   (* '{' *)
Definition phClose : byte := x7d.  (* '}' *)
Definition phEscape : byte := x5c. (* '\' *)

Definition at_ (s : bytes) (i : nat) : byte := nth i s x00.
Definition sub (s : bytes) (a b : nat) : bytes := firstn (b - a) (skipn a s).

(* strings.Index(s[from:], c) + from *)
Fixpoint index_from (s : bytes) (c : byte) (from : nat) : option nat :=
  match from, s with
  | O, _ => index_byte s c
  | S f, [] => None
  | S f, _ :: r => option_map S (index_from r c f)
  end.

(* `for end > 0 && end < len(input)-1 && input[end-1] == phEscape { ... }` *)
Fixpoint find_end (fuel : nat) (s : bytes) (e : nat) : option nat :=
  match fuel with
  | O => Some e
  | S f =>
      if (0 <? e)%nat && (e <? length s - 1)%nat && Byte.eqb (at_ s (e - 1)) phEscape then
        match index_from s phClose (e + 1) with
        | None => None
        | Some e' => find_end f s e'
        end
      else Some e
  end.

Section Replace.
  Variable get : bytes -> option bytes.

  Fixpoint rloop (fuel i lwc unclosed : nat) (sb s : bytes) : bytes :=
    match fuel with
    | O => sb ++ skipn lwc s
    | S f =>
        if (length s <=? i)%nat then sb ++ skipn lwc s else
        let ci := at_ s i in
        if (0 <? i)%nat && Byte.eqb (at_ s (i - 1)) phEscape && (Byte.eqb ci phClose || Byte.eqb ci phOpen) then
          rloop f (i + 1) i unclosed (sb ++ sub s lwc (i - 1)) s
        else if negb (Byte.eqb ci phOpen) then rloop f (i + 1) lwc unclosed sb s
        else if (100 <? unclosed)%nat then []       (* "too many unclosed placeholders": ReplaceAll drops the error *)
        else
          match index_from s phClose i with
          | None => rloop f (i + 1) lwc (unclosed + 1) sb s
          | Some e0 =>
              match find_end (length s) s e0 with
              | None => rloop f (i + 1) lwc (unclosed + 1) sb s
              | Some e =>
                  let key := sub s (i + 1) e in
                  let v := match get key with Some v => v | None => [] end in
                  rloop f (e + 1) (e + 1) unclosed (sb ++ sub s lwc i ++ v) s
              end
          end
    end.

  Definition replace_all (s : bytes) : bytes :=
    if negb (existsb (Byte.eqb phOpen) s) && negb (existsb (Byte.eqb phClose) s) then s
    else rloop (length s + 1) 0 0 0 [] s.
End Replace.

(* the global provider as far as the engine uses it: an explicit table (environment variables
   set by the harness as env.NAME); every other key is unknown or empty, both give "" *)
Fixpoint assoc (k : bytes) (m : list (bytes * bytes)) : option bytes :=
  match m with
  | [] => None
  | (k', v) :: r => if bytes_eqb k k' then Some v else assoc k r
  end.

(* strings.ToUpper restricted to ASCII letters (the engine generates ASCII command names) *)
Definition upper_byte (b : byte) : byte :=
  let n := Byte.to_N b in if ((97 <=? n) && (n <=? 122))%N then byte_of_N (n - 32) else b.
Definition ascii_upper (s : bytes) : bytes := map upper_byte s.

(* ------------------------------------------------------------------ Provision *)
Record config := {
  commands : list bytes;
  credentials : list (bytes * bytes)   (* the map h.Credentials in the order Provision iterates it; keys distinct *)
}.
Record rule := { en_connect : bool; en_bind : bool; en_assoc : bool }.   (* socks5.PermitCommand *)
Inductive authn := NoAuth | UserPass (store : list (bytes * bytes)).      (* socks5.Authenticator *)
Record server := { srule : rule; sauth : list authn }.

Definition s_CONNECT : bytes := [x43; x4f; x4e; x4e; x45; x43; x54].
Definition s_ASSOCIATE : bytes := [x41; x53; x53; x4f; x43; x49; x41; x54; x45].
Definition s_BIND : bytes := [x42; x49; x4e; x44].

Section Provision.
  Variable repl : bytes -> bytes.     (* repl.ReplaceAll(_, "") *)
  Variable upper : bytes -> bytes.    (* strings.ToUpper *)

  Fixpoint cmds_rule (cs : list bytes) (r : rule) : option rule :=
    match cs with
    | [] => Some r
    | c :: cs' =>
        let u := upper (repl c) in
        if bytes_eqb u s_CONNECT then cmds_rule cs' {| en_connect := true; en_bind := en_bind r; en_assoc := en_assoc r |}
        else if bytes_eqb u s_ASSOCIATE then cmds_rule cs' {| en_connect := en_connect r; en_bind := en_bind r; en_assoc := true |}
        else if bytes_eqb u s_BIND then cmds_rule cs' {| en_connect := en_connect r; en_bind := true; en_assoc := en_assoc r |}
        else None      (* unknown command: Provision returns an error *)
    end.

  (* `credentials[k] = v` for every entry whose replaced key is non-empty; a later write to the
     same key shadows an earlier one *)
  Definition cred_step (m : list (bytes * bytes)) (kv : bytes * bytes) : list (bytes * bytes) :=
    let k := repl (fst kv) in let v := repl (snd kv) in
    if (0 <? length k)%nat then (k, v) :: m else m.

  Definition provision (c : config) : option server :=
    let r0 := {| en_connect := false; en_bind := false; en_assoc := false |} in
    match (match commands c with
           | [] => Some {| en_connect := true; en_bind := false; en_assoc := true |}
           | cs => cmds_rule cs r0
           end) with
    | None => None
    | Some r =>
        let creds := fold_left cred_step (credentials c) [] in
        (* `if len(h.Credentials) > 0`: the unfiltered map *)
        let auth := if (0 <? length (credentials c))%nat then [UserPass creds] else [NoAuth] in
        Some {| srule := r; sauth := auth |}
    end.
End Provision.

(* ------------------------------------------------------------------ the server *)
Inductive dialres := DialOK (local_v6 : bool) | DialRefused | DialNetUnreach | DialOther.
Record env := {
  resolve : bytes -> option bytes;          (* DNSResolver.Resolve: the IP (4 or 16 bytes) or an error *)
  dial : bytes -> Z -> dialres;             (* net.Dial("tcp", host:port) *)
  listen_udp : option bool;                 (* net.ListenUDP("udp", nil): local address is IPv6? / error *)
  client_ip : option bytes                  (* conn.RemoteAddr() is a *net.TCPAddr with this IP / something else *)
}.

Inductive event :=
| Out (b : bytes)                 (* bytes written to the client *)
| AuthOK (user pass : bytes)      (* Credentials.Valid(user, pass) returned true *)
| Resolve (fqdn : bytes)
| Dial (ip : bytes) (port : Z)    (* ip = [] : the host part is empty (":port") *)
| ListenUDP (dst_ip : bytes) (dst_port : Z).   (* relay opened for a client that announced dst_ip:dst_port as its own address *)

Inductive ending :=
| EErr                     (* ServeConn returns an error; the connection is closed *)
| EDone                    (* ServeConn returns nil without relaying *)
| EProxy (rest : bytes)    (* connected: the remaining client bytes are relayed to the target *)
| EAssoc.                  (* UDP association established; client bytes are discarded until EOF *)

Definition zb (b : byte) : Z := bZ b.
Definition code (a : authn) : Z := match a with NoAuth => 0 | UserPass _ => 2 end.

(* Server.authenticate: first configured authenticator whose code the client offered *)
Fixpoint select_auth (auths : list authn) (methods : bytes) : option authn :=
  match auths with
  | [] => None
  | a :: r => if existsb (fun m => zb m =? code a)%Z methods then Some a else select_auth r methods
  end.

(* StaticCredentials.Valid *)
Definition valid (store : list (bytes * bytes)) (user pass : bytes) : bool :=
  match assoc user store with Some p => bytes_eqb pass p | None => false end.

Definition nat_of_byte (b : byte) : nat := N.to_nat (bN b).

(* UserPassAuthenticator.Authenticate + statute.ParseUserPassRequest *)
Definition userpass (store : list (bytes * bytes)) (inp : bytes) : list event * option bytes :=
  let hello := Out [x05; x02] in
  match inp with
  | ver :: ulen :: r1 =>
      if negb (zb ver =? 1)%Z then ([hello], None) else
      match read_full (nat_of_byte ulen) r1 with
      | None => ([hello], None)
      | Some (user, r2) =>
          match r2 with
          | [] => ([hello], None)
          | plen :: r3 =>
              match read_full (nat_of_byte plen) r3 with
              | None => ([hello], None)
              | Some (pass, r4) =>
                  if valid store user pass then ([hello; AuthOK user pass; Out [x01; x00]], Some r4)
                  else ([hello; Out [x01; x01]], None)
              end
          end
      end
  | _ => ([hello], None)
  end.

(* statute.ParseMethodRequest, the version check, Server.authenticate *)
Definition negotiate (srv : server) (inp : bytes) : list event * option bytes :=
  match inp with
  | ver :: nm :: r2 =>
      match read_full (nat_of_byte nm) r2 with
      | None => ([], None)
      | Some (methods, r3) =>
          if negb (zb ver =? 5)%Z then ([], None) else
          match select_auth (sauth srv) methods with
          | None => ([Out [x05; xff]], None)
          | Some NoAuth => ([Out [x05; x00]], Some r3)
          | Some (UserPass store) => userpass store r3
          end
      end
  | _ => ([], None)
  end.

(* SendReply: failures carry 0.0.0.0:0; a success carries the local address (masked to zeros) *)
Definition reply_fail (rep : byte) : bytes := [x05; rep; x00; x01; x00; x00; x00; x00; x00; x00].
Definition reply_ok (v6 : bool) : bytes :=
  if v6 then [x05; x00; x00; x04] ++ repeat x00 18 else [x05; x00; x00; x01] ++ repeat x00 6.

Definition port_of (b : bytes) : Z := Z.of_N (be_N b).

(* PermitCommand.Allow *)
Definition allow (r : rule) (cmd : Z) : bool :=
  (if cmd =? 1 then en_connect r else if cmd =? 2 then en_bind r else if cmd =? 3 then en_assoc r else false)%Z.

(* ------------------------------------------------------------------ the UDP relay's source check *)
(* handleAssociate: a datagram arriving at the relay port from src is forwarded iff
     (request.DestAddr.IP.IsUnspecified() || request.DestAddr.IP.Equal(src.IP)) &&
     (request.DestAddr.Port == 0 || request.DestAddr.Port == src.Port)
   IPs are 4 or 16 bytes; net.IP.Equal identifies an IPv4 address with its IPv4-mapped IPv6 form. *)
Definition v4mapped_prefix : bytes := repeat x00 10 ++ [xff; xff].
Definition ip_norm (ip : bytes) : bytes :=
  if (length ip =? 16)%nat && bytes_eqb (firstn 12 ip) v4mapped_prefix then skipn 12 ip else ip.
Definition ip_equal (a b : bytes) : bool := bytes_eqb (ip_norm a) (ip_norm b).
Definition ip_unspecified (ip : bytes) : bool :=   (* net.IP.IsUnspecified: 0.0.0.0, ::, ::ffff:0.0.0.0 *)
  let n := ip_norm ip in ((length n =? 4)%nat || (length n =? 16)%nat) && forallb (fun b => (zb b =? 0)%Z) n.

(* conn.RemoteAddr() as the rewriter sees it: a *net.TCPAddr (IP bytes and zone; the zone of a
   link-local IPv6 address plays no role: net.IP.Equal compares the IP bytes) or any other
   net.Addr, of which only String() would be known and which the handler does not interpret *)
Inductive caddr := CTcp (ip zone : bytes) | COther (s : bytes).
Definition client_ip_of (c : caddr) : option bytes := match c with CTcp ip _ => Some ip | COther _ => None end.

(* associateSourceRewriter (socks5_handler.go): an ASSOCIATE request that announces no address is
   pinned to the IP of the client's TCP connection (when that is known) *)
Definition pin_source (client : option bytes) (ip : bytes) : bytes :=
  if negb (length ip =? 0)%nat && negb (ip_unspecified ip) then ip
  else match client with
       | Some c => if (length c =? 0)%nat || ip_unspecified c then ip else c
       | None => ip
       end.
(* associateSourceRewriter.Rewrite: the address the library's source check will be given *)
Definition rewrite (client : caddr) (cmd : Z) (ip : bytes) : bytes :=
  if (cmd =? 3)%Z then pin_source (client_ip_of client) ip else ip.

Definition relay_accepts (dst_ip : bytes) (dst_port : Z) (src_ip : bytes) (src_port : Z) : bool :=
  (ip_unspecified dst_ip || ip_equal dst_ip src_ip) && ((dst_port =? 0) || (dst_port =? src_port))%Z.

(* handleRequest after the destination is known (ip = [] when the request carried an empty domain) *)
Definition dispatch (srv : server) (e : env) (cmd : Z) (ip : bytes) (port : Z) (rest : bytes) : list event * ending :=
  if negb (allow (srule srv) cmd) then ([Out (reply_fail x02)], EErr)
  else if (cmd =? 1)%Z then
    match dial e ip port with
    | DialOK v6 => ([Dial ip port; Out (reply_ok v6)], EProxy rest)
    | DialRefused => ([Dial ip port; Out (reply_fail x05)], EErr)
    | DialNetUnreach => ([Dial ip port; Out (reply_fail x03)], EErr)
    | DialOther => ([Dial ip port; Out (reply_fail x04)], EErr)
    end
  else if (cmd =? 2)%Z then ([Out (reply_fail x07)], EDone)     (* handleBind: not supported *)
  else
    match listen_udp e with
    | Some v6 => ([ListenUDP (pin_source (client_ip e) ip) port; Out (reply_ok v6)], EAssoc)
    | None => ([ListenUDP (pin_source (client_ip e) ip) port; Out (reply_fail x01)], EErr)
    end.

Definition known_cmd (cmd : Z) : bool := ((cmd =? 1) || (cmd =? 2) || (cmd =? 3))%Z.

(* statute.ParseRequest, the command check of ServeConn, handleRequest *)
Definition request (srv : server) (e : env) (inp : bytes) : list event * ending :=
  match inp with
  | ver :: cmdb :: r1 =>
      if negb (zb ver =? 5)%Z then ([], EErr) else
      match r1 with
      | rsv :: atyp :: r2 =>
          let cmd := zb cmdb in
          if (zb atyp =? 1)%Z then
            match read_full 6 r2 with
            | None => ([], EErr)
            | Some (a, r3) =>
                if negb (known_cmd cmd) then ([Out (reply_fail x07)], EErr)
                else dispatch srv e cmd (firstn 4 a) (port_of (skipn 4 a)) r3
            end
          else if (zb atyp =? 4)%Z then
            match read_full 18 r2 with
            | None => ([], EErr)
            | Some (a, r3) =>
                if negb (known_cmd cmd) then ([Out (reply_fail x07)], EErr)
                else dispatch srv e cmd (firstn 16 a) (port_of (skipn 16 a)) r3
            end
          else if (zb atyp =? 3)%Z then
            match r2 with
            | [] => ([], EErr)
            | dl :: r2' =>
                match read_full (nat_of_byte dl + 2) r2' with
                | None => ([], EErr)
                | Some (a, r3) =>
                    let fqdn := firstn (nat_of_byte dl) a in
                    let port := port_of (skipn (nat_of_byte dl) a) in
                    if negb (known_cmd cmd) then ([Out (reply_fail x07)], EErr)
                    else
                      match fqdn with
                      | [] => dispatch srv e cmd [] port r3
                      | _ =>
                          match resolve e fqdn with
                          | None => ([Resolve fqdn; Out (reply_fail x04)], EErr)
                          | Some ip => let '(ev, fin) := dispatch srv e cmd ip port r3 in (Resolve fqdn :: ev, fin)
                          end
                      end
                end
            end
          else ([Out (reply_fail x08)], EErr)
      | _ => ([], EErr)
      end
  | _ => ([], EErr)
  end.

(* Server.ServeConn on the client's complete byte string *)
Definition serve (srv : server) (e : env) (inp : bytes) : list event * ending :=
  match negotiate srv inp with
  | (ev1, None) => (ev1, EErr)
  | (ev1, Some rest) => let '(ev2, fin) := request srv e rest in (ev1 ++ ev2, fin)
  end.

(* ------------------------------------------------------------------ observables *)
Definition outbound (ev : event) : bool := match ev with Dial _ _ | ListenUDP _ _ => true | _ => false end.
Definition is_resolve (ev : event) : bool := match ev with Resolve _ => true | _ => false end.
Definition written (evs : list event) : bytes := flat_map (fun ev => match ev with Out b => b | _ => [] end) evs.
Definition outbound_dial (ev : event) : bool := match ev with Dial _ _ => true | _ => false end.
Definition is_listen (ev : event) : bool := match ev with ListenUDP _ _ => true | _ => false end.

