(* Independent reference for the OpenVPN matcher (C14), written from the OpenVPN wire definition and the documented
   options of the module - NOT from the matcher's control flow and NOT from crypto.go's key selectors:

     client hard reset, no protection     op/key-id | session id (8) | ack count (1) | packet id (4)
     tls-auth                             op/key-id | session id | HMAC tag | replay packet id (4) | time (4) | ack count | packet id
                                          tag = HMAC_d(k, replay id | time | op/key-id | session id | ack count | packet id)
     tls-crypt                            op/key-id | session id | replay id | time | tag (32) | CTR(ke, tag[0..16), ack count | packet id)
                                          tag = HMAC-SHA256(kh, op/key-id | session id | replay id | time | ack count | packet id)
     tls-crypt-v2                         as tls-crypt under the client key Kc, opcode HARD_RESET_CLIENT_V3, followed by the wrapped key
                                          WKc = wtag | CTR(Ke', wtag[0..16), Kc | metadata) | len(2),  wtag = HMAC-SHA256(Ka', len | Kc | metadata)

   Key material (OpenVPN "key2" layout of a 2048-bit static key: four 64-byte quarters  cipher0 | hmac0 | cipher1 | hmac1):
     tls-auth, packets from the client: server with key-direction 0 ("normal") verifies with hmac1 = key[192..); with
       key-direction 1 ("inverse") or without a direction ("bidi") with hmac0 = key[64..); the first min(digest size, 64) bytes
     tls-crypt (no direction option): packets from the client are authenticated with hmac1 = key[192..224) and
       encrypted with cipher1 = key[128..160)
     tls-crypt-v2 server key (1024 bit): cipher = key[0..32), hmac = key[64..96); the client key Kc is used as in tls-crypt

   The byte strings that a message carries (tag, ciphertext) are part of the abstract message, so that the reference also
   speaks about forged or damaged messages; [honest_*] below build the messages an honest client sends.
   Definitions only (lemmas: proofs/OpenVpnRefProofs.v). *)
From Coq Require Import List NArith ZArith Bool Arith.
From Coq.Strings Require Import Byte.
From L4.model Require Import GoBase CodecOpenVpn MatchOpenVpn.
Import ListNotations.

Inductive direction := DNormal | DInverse | DBidi.

(* the documented configuration of the matcher *)
Record rcfg := {
  m_plain : bool; m_auth : bool; m_crypt : bool; m_crypt2 : bool;   (* modes *)
  no_crypto : bool; no_ts : bool;                                    (* ignore_crypto, ignore_timestamp *)
  group_key : option (list byte); gk_dir : direction;                (* group_key, group_key_direction (auth mode only) *)
  want_digest : option nat;                                          (* auth_digest: index into the digest table *)
  srv_key : option (list byte);                                      (* server_key *)
  cl_keys : list (list byte * wkey) }.                               (* client_keys: Kc and its wrapped form *)

Definition rcfg_wf (rc : rcfg) : Prop :=
  match group_key rc with Some k => length k = 256%nat | None => True end /\
  match srv_key rc with Some k => length k = 128%nat | None => True end /\
  match want_digest rc with Some d => (d < length auth_digests)%nat | None => True end /\
  Forall (fun ck => length (fst ck) = 256%nat) (cl_keys rc).

(* what Provision is documented to build: the direction belongs to the auth-mode key only *)
Definition provision (rc : rcfg) : cfg :=
  {| acc_plain := m_plain rc; acc_auth := m_auth rc; acc_crypt := m_crypt rc; acc_crypt2 := m_crypt2 rc;
     ign_crypto := no_crypto rc; ign_ts := no_ts rc;
     gk_auth := option_map (fun k => {| k_bidi := match gk_dir rc with DBidi => true | _ => false end;
                                        k_inverse := match gk_dir rc with DInverse => true | _ => false end; k_bytes := k |}) (group_key rc);
     gk_crypt := option_map (fun k => {| k_bidi := false; k_inverse := false; k_bytes := k |}) (group_key rc);
     auth_digest := want_digest rc;
     client_keys := map (fun ck => {| ck_static := {| k_bidi := false; k_inverse := false; k_bytes := fst ck |}; ck_wk := snd ck |}) (cl_keys rc);
     server_key := option_map (fun k => {| k_bidi := false; k_inverse := false; k_bytes := k |}) (srv_key rc) |}.

(* ---- abstract client reset messages ---- *)
Record reset := { r_keyid : N; r_sid : N; r_ack : N; r_pid : N }.
Record replay := { rp_id : N; rp_ts : N }.
Inductive omsg :=
| Plain (r : reset)
| TlsAuth (r : reset) (rp : replay) (tag : list byte)
| TlsCrypt (keyid sid : N) (rp : replay) (tag enc : list byte)
| TlsCrypt2 (keyid sid : N) (rp : replay) (tag enc : list byte) (wtag wenc : list byte).

(* the numbers fit the field widths (representability; everything else is inside [passes]) *)
Definition reset_fits (r : reset) : Prop := (r_keyid r < 8)%N /\ (r_sid r < 2 ^ 64)%N /\ (r_ack r < 256)%N /\ (r_pid r < 2 ^ 32)%N.
Definition replay_fits (rp : replay) : Prop := (rp_id rp < 2 ^ 32)%N /\ (rp_ts rp < 2 ^ 32)%N.
Definition fits (m : omsg) : Prop :=
  match m with
  | Plain r => reset_fits r
  | TlsAuth r rp _ => reset_fits r /\ replay_fits rp
  (* tls-crypt has fixed-width tag (32) and ciphertext (5): other lengths are not representable (the same bytes would
     read as another message) *)
  | TlsCrypt kid sid rp tag enc => (kid < 8)%N /\ (sid < 2 ^ 64)%N /\ replay_fits rp /\ length tag = 32%nat /\ length enc = 5%nat
  | TlsCrypt2 kid sid rp tag enc wtag _ =>
      (kid < 8)%N /\ (sid < 2 ^ 64)%N /\ replay_fits rp /\ length tag = 32%nat /\ length enc = 5%nat /\ length wtag = 32%nat
  end.

Definition be (w : nat) (v : N) : list byte := N_to_be w v.
Definition hdr_byte (op kid : N) : byte := byte_of (op * 8 + kid).
Definition sub (k : list byte) (a n : nat) : list byte := firstn n (skipn a k).

(* ---- wire encoding (without the TCP length prefix) ---- *)
Definition encode (m : omsg) : list byte :=
  match m with
  | Plain r => hdr_byte 7 (r_keyid r) :: be 8 (r_sid r) ++ [byte_of (r_ack r)] ++ be 4 (r_pid r)
  | TlsAuth r rp tag =>
      hdr_byte 7 (r_keyid r) :: be 8 (r_sid r) ++ tag ++ be 4 (rp_id rp) ++ be 4 (rp_ts rp) ++ [byte_of (r_ack r)] ++ be 4 (r_pid r)
  | TlsCrypt kid sid rp tag enc => hdr_byte 7 kid :: be 8 sid ++ be 4 (rp_id rp) ++ be 4 (rp_ts rp) ++ tag ++ enc
  | TlsCrypt2 kid sid rp tag enc wtag wenc =>
      hdr_byte 10 kid :: be 8 sid ++ be 4 (rp_id rp) ++ be 4 (rp_ts rp) ++ tag ++ enc ++
      wtag ++ wenc ++ be 2 (N.of_nat (length wtag + length wenc + 2))
  end.
(* over TCP every packet is preceded by its length (16 bit, big endian) *)
Definition tcp_frame (w : list byte) : list byte := be 2 (N.of_nat (length w)) ++ w.

Section Ref.
  Variable hmac : nat -> list byte -> list byte -> list byte.   (* HMAC with digest number d of the table: key, text *)
  Variable ctr : list byte -> list byte -> list byte -> list byte.  (* AES-256-CTR: key, iv, data *)
  Variable now : Z.                                             (* nanoseconds since the epoch *)

  (* replay timestamps: up to 15 seconds behind or ahead of now *)
  Definition ts_ok (ts : N) : Prop := (now - 15000000000 < Z.of_N ts * 1000000000 < now + 15000000000)%Z.

  Definition auth_key (k : list byte) (d : direction) (size : nat) : list byte :=
    sub k (match d with DNormal => 192 | _ => 64 end) (Nat.min size 64).
  Definition auth_text (r : reset) (rp : replay) : list byte :=
    be 4 (rp_id rp) ++ be 4 (rp_ts rp) ++ [hdr_byte 7 (r_keyid r)] ++ be 8 (r_sid r) ++ [byte_of (r_ack r)] ++ be 4 (r_pid r).
  Definition crypt_text (op kid sid : N) (rp : replay) (pl : list byte) : list byte :=
    [hdr_byte op kid] ++ be 8 sid ++ be 4 (rp_id rp) ++ be 4 (rp_ts rp) ++ pl.
  Definition sha256 : nat := 4.   (* position of SHA-256 in the digest table *)

  (* tls-auth: the digests the server tries *)
  Definition auth_tag_ok (rc : rcfg) (k : list byte) (r : reset) (rp : replay) (tag : list byte) : Prop :=
    exists d, (d < length auth_digests)%nat /\ match want_digest rc with Some w => d = w | None => True end /\
              length tag = digest_size d /\ tag = hmac d (auth_key k (gk_dir rc) (digest_size d)) (auth_text r rp).
  (* tls-crypt under key k: the ciphertext decrypts to "no acks, packet id 0" and the tag authenticates header and plaintext *)
  Definition crypt_ok (k : list byte) (op kid sid : N) (rp : replay) (tag enc : list byte) : Prop :=
    ctr (sub k 128 32) (firstn 16 tag) enc = repeat x00 5 /\
    tag = hmac sha256 (sub k 192 32) (crypt_text op kid sid rp (repeat x00 5)).
  (* tls-crypt-v2: unwrapping WKc with the server key yields Kc *)
  Definition unwrap_ok (ks : list byte) (wtag wenc kc : list byte) : Prop :=
    let pl := ctr (sub ks 0 32) (firstn 16 wtag) wenc in
    length pl = length wenc /\ kc = firstn 256 pl /\
    wtag = hmac sha256 (sub ks 64 32) (be 2 (N.of_nat (length wtag + length wenc + 2)) ++ pl).

  Definition passes (rc : rcfg) (m : omsg) : Prop :=
    match m with
    | Plain r =>
        m_plain rc = true /\ r_keyid r = 0%N /\ (0 < r_sid r)%N /\ r_ack r = 0%N /\ r_pid r = 0%N
    | TlsAuth r rp tag =>
        m_auth rc = true /\ r_keyid r = 0%N /\ (0 < r_sid r)%N /\ r_ack r = 0%N /\ r_pid r = 0%N /\
        size_ok (length tag) = true /\
        rp_id rp = 1%N /\ (no_ts rc = true \/ ts_ok (rp_ts rp)) /\
        match want_digest rc with Some w => digest_size w = length tag | None => True end /\
        (no_crypto rc = true \/ match group_key rc with None => True | Some k => auth_tag_ok rc k r rp tag end)
    | TlsCrypt kid sid rp tag enc =>
        m_crypt rc = true /\ kid = 0%N /\ (0 < sid)%N /\
        rp_id rp = 1%N /\ (no_ts rc = true \/ ts_ok (rp_ts rp)) /\
        (no_crypto rc = true \/ match group_key rc with None => True | Some k => crypt_ok k 7 kid sid rp tag enc end)
    | TlsCrypt2 kid sid rp tag enc wtag wenc =>
        m_crypt2 rc = true /\ kid = 0%N /\ (0 < sid)%N /\
        (256 <= length wenc)%nat /\ (length wtag + length wenc + 2 <= 1024)%nat /\
        (rp_id rp = 1%N \/ rp_id rp = 251658241%N) /\ (no_ts rc = true \/ ts_ok (rp_ts rp)) /\
        (no_crypto rc = true \/
         match cl_keys rc, srv_key rc with
         | [], None => True
         | [], Some ks => exists kc, unwrap_ok ks wtag wenc kc /\ crypt_ok kc 10 kid sid rp tag enc
         | cks, _ => exists ck, In ck cks /\ w_hmac (snd ck) = wtag /\ w_enc (snd ck) = wenc /\ crypt_ok (fst ck) 10 kid sid rp tag enc
         end)
    end.

  (* ---- what an honest client sends ---- *)
  Definition honest_auth (k : list byte) (cd : direction) (d : nat) (r : reset) (rp : replay) : omsg :=
    TlsAuth r rp (hmac d (auth_key k cd (digest_size d)) (auth_text r rp)).
  Definition honest_crypt (k : list byte) (kid sid : N) (rp : replay) (ack pid : N) : omsg :=
    let pl := [byte_of ack] ++ be 4 pid in
    let tag := hmac sha256 (sub k 192 32) (crypt_text 7 kid sid rp pl) in
    TlsCrypt kid sid rp tag (ctr (sub k 128 32) (firstn 16 tag) pl).
End Ref.
