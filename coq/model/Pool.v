(* The pooled matching buffers (layer4/connection.go bufPool, prefetch; Server.handle and
   listener.handle in layer4/server.go, layer4/listener.go; the tee branch in modules/l4tee) as a
   heap of backing arrays plus views with Go's append/reslice aliasing.  Definitions only
   (lemmas: proofs/PoolProofs.v).

   heap   : array id -> bytes stored in the array (from index 0)
   free   : sync.Pool as the list of arrays currently in it; Get returns ANY of them (the event
            carries the choice) or a new array (New); Put adds one
   view   : a slice header (array id, len, cap) plus the Connection's read offset
   events of different connections interleave arbitrarily: the event list is the schedule oracle.

   The life cycles differ only in the [disc] parameter:
     put_on_hijack  handle Puts its array back although the connection lives on after handle
                    returned (listener.handle before f83061f; read from gen/Shape.v)
     put_early      the array is Put back before the handler ran (a breaking edit of Server.handle)
     fork_alias     a tee branch Connection shares the parent's backing array (branchc := *cx)
     adopt_tmp      prefetch makes the temporary pooled chunk the buffer of a Connection that has
                    nothing buffered, although the chunk goes back to the pool (a breaking edit)  *)
From Coq Require Import List Arith Bool ZArith.
From Coq.Strings Require Import Byte.
From L4.gen Require Import Consts Shape.
Import ListNotations.
Local Open Scope nat_scope.

Definition byte := Byte.byte.
Definition bid := nat.   (* backing array *)
Definition cid := nat.   (* Connection value holding a view *)

Definition chunk : nat := Z.to_nat layer4_prefetchChunkSize.
Definition maxb : nat := Z.to_nat layer4_MaxMatchingBytes.

Record disc := mkDisc { put_on_hijack : bool; put_early : bool; fork_alias : bool; adopt_tmp : bool }.

Definition good_disc (d : disc) : Prop :=
  put_on_hijack d = false /\ put_early d = false /\ fork_alias d = false /\ adopt_tmp d = false.

(* the life cycles of today's source, as far as l4gen recognises them *)
Definition prefetch_adopts : bool := negb layer4_prefetch_buf_only_grows_itself.
Definition server_put_early : bool :=
  negb (layer4_server_handle_put_deferred && layer4_server_handle_put_once_deferred).
Definition listener_put_on_hijack : bool :=
  layer4_listener_handle_put_unconditional || negb layer4_listener_handle_put_iff_not_hijacked.
Definition server_disc : disc := mkDisc false server_put_early false prefetch_adopts.
Definition listener_disc : disc := mkDisc listener_put_on_hijack false false prefetch_adopts.
Definition tee_disc : disc := mkDisc false server_put_early l4tee_branch_aliases_buf prefetch_adopts.
(* reference points *)
Definition clean_disc : disc := mkDisc false false false false.
Definition unconditional_put_disc : disc := mkDisc true false false false.
Definition alias_fork_disc : disc := mkDisc false false true false.
Definition early_put_disc : disc := mkDisc false true false false.
Definition adopt_tmp_disc : disc := mkDisc false false false true.

Inductive phase := PHandling | PHanded | PDone.

Record cstate := mkC {
  vid  : bid;            (* array behind cx.buf *)
  vlen : nat;            (* len(cx.buf) *)
  vcap : nat;            (* cap(cx.buf) *)
  voff : nat;            (* cx.offset *)
  orig : option bid;     (* the array handle got from the pool and will Put back *)
  ph   : phase;
  own  : list byte;      (* ghost: what this connection's own prefetches put into cx.buf[:len] *)
  exp  : list byte;      (* ghost: the bytes its reads must return, computed from [own] only *)
  got  : list byte       (* the bytes its reads did return (from the heap) *)
}.

Definition live (st : cstate) : bool := match ph st with PDone => false | _ => true end.

Record pstate := mkP {
  heap : bid -> list byte;
  free : list bid;
  next : bid;
  cs   : cid -> option cstate
}.

Definition pinit : pstate := mkP (fun _ => []) [] 0 (fun _ => None).

Inductive pevent :=
| PGet (c : cid) (k : option nat)
    (* handle: buf := bufPool.Get().([]byte)[:0]; cx := WrapConnection(conn, buf) *)
| PPrefetch (c : cid) (data : list byte) (k : option nat) (newcap : nat)
    (* cx.prefetch(): the socket delivers [data] (at most one chunk is taken); k chooses the array
       for the temporary buffer when one is needed; newcap is the capacity append picks if it grows *)
| PPeek (c : cid)
    (* matching: a matcher looks at cx.buf[cx.offset:] (MatchingBytes / reads while frozen) *)
| PRead (c : cid) (n : nat)
    (* cx.Read outside matching serving n bytes from the buffer *)
| PReturn (c : cid) (hij : bool)
    (* handle returns; hij: the connection lives on (errHijacked) *)
| PFork (p c : cid)
    (* tee: the branch Connection c is made from p *)
| PEnd (c : cid).
    (* a handed-over / branch Connection is dropped *)

Definition subject (e : pevent) : cid :=
  match e with
  | PGet c _ | PPrefetch c _ _ _ | PPeek c | PRead c _ | PReturn c _ | PFork _ c | PEnd c => c
  end.

Definition updc (f : cid -> option cstate) (c : cid) (v : cstate) : cid -> option cstate :=
  fun x => if Nat.eqb x c then Some v else f x.
Definition updh (h : bid -> list byte) (b : bid) (v : list byte) : bid -> list byte :=
  fun x => if Nat.eqb x b then v else h x.

Definition remove_nth {A} (i : nat) (l : list A) : list A := firstn i l ++ skipn (S i) l.

(* bufPool.Get(): any array of the pool, or a new one *)
Definition pool_get (k : option nat) (fr : list bid) (nx : bid) : bid * list bid * bid :=
  match k with
  | Some i => match nth_error fr i with
              | Some b => (b, remove_nth i fr, nx)
              | None => (nx, fr, S nx)
              end
  | None => (nx, fr, S nx)
  end.

(* copy(dst[pos:], data) on an array *)
Definition write_at (pos : nat) (data old : list byte) : list byte :=
  firstn pos old ++ data ++ skipn (pos + length data) old.

(* cx.buf[cx.offset:] as stored in the heap *)
Definition window (s : pstate) (st : cstate) : list byte :=
  skipn (voff st) (firstn (vlen st) (heap s (vid st))).

Definition set_view (st : cstate) (b : bid) (len cap off : nat) (ow : list byte) : cstate :=
  mkC b len cap off (orig st) (ph st) ow (exp st) (got st).

Definition step (d : disc) (s : pstate) (e : pevent) : pstate :=
  match e with
  | PGet c k =>
      match cs s c with
      | Some _ => s
      | None =>
          let '(b, fr, nx) := pool_get k (free s) (next s) in
          let st := mkC b 0 chunk 0 (Some b) PHandling [] [] [] in
          mkP (heap s) (if put_early d then b :: fr else fr) nx (updc (cs s) c st)
      end
  | PPrefetch c data k newcap =>
      match cs s c with
      | Some st =>
          if negb (live st) then s
          else if Nat.leb maxb (vlen st) then s    (* ErrMatchingBufferFull *)
          else
            let dat := firstn chunk data in
            let n := length dat in
            if Nat.leb chunk (vcap st - vlen st) then
              (* n, err = cx.Conn.Read(cx.buf[len : len+chunk]); cx.buf = cx.buf[:len+n] *)
              mkP (updh (heap s) (vid st) (write_at (vlen st) dat (heap s (vid st)))) (free s) (next s)
                  (updc (cs s) c (set_view st (vid st) (vlen st + n) (vcap st) (voff st) (own st ++ dat)))
            else
              (* tmp := bufPool.Get()[:chunk]; n = Read(tmp); cx.buf = append(cx.buf, tmp[:n]...); Put(tmp) *)
              let '(t, fr, nx) := pool_get k (free s) (next s) in
              let h1 := updh (heap s) t (write_at 0 dat (heap s t)) in
              if adopt_tmp d && Nat.eqb (vlen st) 0 then
                (* cx.buf = tmp[:n] while the deferred Put still returns tmp *)
                mkP h1 (t :: fr) nx
                    (updc (cs s) c (set_view st t n chunk (voff st) (own st ++ dat)))
              else if Nat.leb (vlen st + n) (vcap st) then
                mkP (updh h1 (vid st) (write_at (vlen st) (firstn n (h1 t)) (h1 (vid st)))) (t :: fr) nx
                    (updc (cs s) c (set_view st (vid st) (vlen st + n) (vcap st) (voff st) (own st ++ dat)))
              else
                mkP (updh h1 nx (firstn (vlen st) (h1 (vid st)) ++ firstn n (h1 t))) (t :: fr) (S nx)
                    (updc (cs s) c (set_view st nx (vlen st + n) (Nat.max newcap (vlen st + n)) (voff st) (own st ++ dat)))
      | None => s
      end
  | PPeek c =>
      match cs s c with
      | Some st =>
          if negb (live st) then s
          else mkP (heap s) (free s) (next s)
                   (updc (cs s) c (mkC (vid st) (vlen st) (vcap st) (voff st) (orig st) (ph st) (own st)
                                       (exp st ++ skipn (voff st) (own st)) (got st ++ window s st)))
      | None => s
      end
  | PRead c n =>
      match cs s c with
      | Some st =>
          if negb (live st) then s
          else
            let m := Nat.min n (vlen st - voff st) in
            let e' := exp st ++ firstn m (skipn (voff st) (own st)) in
            let g' := got st ++ firstn m (window s st) in
            if Nat.eqb (voff st + m) (vlen st)
            then (* buffer consumed: cx.offset = 0; cx.buf = cx.buf[:0] *)
                 mkP (heap s) (free s) (next s)
                     (updc (cs s) c (mkC (vid st) 0 (vcap st) 0 (orig st) (ph st) [] e' g'))
            else mkP (heap s) (free s) (next s)
                     (updc (cs s) c (mkC (vid st) (vlen st) (vcap st) (voff st + m) (orig st) (ph st) (own st) e' g'))
      | None => s
      end
  | PReturn c hij =>
      match cs s c with
      | Some st =>
          match ph st with
          | PHandling =>
              let fr := match orig st with
                        | Some b => if (negb hij || put_on_hijack d) && negb (put_early d) then b :: free s else free s
                        | None => free s
                        end in
              mkP (heap s) fr (next s)
                  (updc (cs s) c (mkC (vid st) (vlen st) (vcap st) (voff st) None (if hij then PHanded else PDone)
                                      (own st) (exp st) (got st)))
          | _ => s
          end
      | None => s
      end
  | PFork p c =>
      match cs s c with
      | Some _ => s
      | None =>
          if fork_alias d then
            match cs s p with
            | Some st =>
                if live st
                then mkP (heap s) (free s) (next s)
                         (updc (cs s) c (mkC (vid st) (vlen st) (vcap st) (voff st) None PHanded (own st) [] []))
                else s
            | None => s
            end
          else
            (* the branch starts without buffered bytes: a nil slice *)
            mkP (updh (heap s) (next s) []) (free s) (S (next s))
                (updc (cs s) c (mkC (next s) 0 0 0 None PHanded [] [] []))
      end
  | PEnd c =>
      match cs s c with
      | Some st =>
          match ph st with
          | PHanded => mkP (heap s) (free s) (next s)
                           (updc (cs s) c (mkC (vid st) (vlen st) (vcap st) (voff st) (orig st) PDone (own st) (exp st) (got st)))
          | _ => s
          end
      | None => s
      end
  end.

Definition prun (d : disc) (s : pstate) (es : list pevent) : pstate := fold_left (step d) es s.

Definition got_of (s : pstate) (c : cid) : list byte :=
  match cs s c with Some st => got st | None => [] end.

(* the schedule in which connection c is alone *)
Definition alone (c : cid) (es : list pevent) : list pevent :=
  filter (fun e => Nat.eqb (subject e) c) es.

(* arrays a Connection can still touch *)
Definition refs (st : cstate) : list bid :=
  vid st :: match orig st with Some b => [b] | None => [] end.
