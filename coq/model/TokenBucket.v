(* C17 model: golang.org/x/time/rate.Limiter (v0.7.0) as the token bucket of its documentation,
   and modules/l4throttle/throttle.go (Provision, Handle, throttledConn.Read) on top of it.
   Definitions only (lemmas: proofs/TokenBucketProofs.v).

   Arithmetic.  Time is in nanoseconds (Z).  A limit is a rational  lp/lq  tokens per second
   (lq > 0).  Token counts are kept in *units*: one token = unit L = lq * 10^9 units, so that the
   bucket gains exactly  lp  units per nanosecond and every quantity of rate.go (tokens,
   tokensFromDuration, durationFromTokens) is an integer expression; the float64 arithmetic of
   rate.go is exact on the dyadic inputs used by the correspondence engine.  The conversion
   time.Duration(float64) of durationFromTokens truncates toward zero: Z.div on a positive
   quotient.

   What is not modelled: Reservation.Cancel (only reached when the connection context is
   cancelled while waiting), SetLimit/SetBurst (never called by throttle.go), float rounding on
   non-dyadic inputs, int64 overflow of durations. *)
From Coq Require Import List ZArith Bool Lia.
From Coq.Strings Require Import Byte.
Import ListNotations.
Open Scope Z_scope.

Definition ns_per_s : Z := 1000000000.
(* rate.InfDuration = math.MaxInt64 *)
Definition inf_duration : Z := 9223372036854775807.

(* ---------------------------------------------------------------- rate.Limiter *)
Record limiter := { lp : Z; lq : Z; lburst : Z; linf : bool }.   (* limit = lp/lq per second; linf: limit == rate.Inf *)
Definition unit (L : limiter) : Z := lq L * ns_per_s.
Record lstate := { tok : Z (* units, may be negative *); last : Z (* ns *) }.

(* rate.NewLimiter: tokens = burst, last = zero time (year 1; every real instant is later) *)
Definition new_limiter (L : limiter) : lstate := {| tok := lburst L * unit L; last := 0 |}.

(* Limit.tokensFromDuration (units) and Limit.durationFromTokens (ns) *)
Definition tokens_from_duration (L : limiter) (d : Z) : Z := if lp L <=? 0 then 0 else d * lp L.
Definition duration_from_tokens (L : limiter) (u : Z) : Z := if lp L <=? 0 then inf_duration else u / lp L.

(* Limiter.advance: tokens available at t (the state is not changed) *)
Definition advance (L : limiter) (st : lstate) (t : Z) : Z :=
  let last' := if t <? last st then t else last st in
  let elapsed := t - last' in
  let tokens := tok st + tokens_from_duration L elapsed in
  let burst := lburst L * unit L in
  if burst <? tokens then burst else tokens.

(* Limiter.reserveN(t, n, maxFutureReserve): new state, ok, wait duration (timeToAct - t) *)
Definition reserve (L : limiter) (st : lstate) (t n maxfuture : Z) : lstate * bool * Z :=
  if linf L then (st, true, 0)
  else
    let tokens := advance L st t - n * unit L in
    let wait := if tokens <? 0 then duration_from_tokens L (- tokens) else 0 in
    let ok := (n <=? lburst L) && (wait <=? maxfuture) in
    if ok then ({| tok := tokens; last := t |}, true, wait) else (st, false, inf_duration).

(* ReserveN(t, n).DelayFrom(t): InfDuration when not ok *)
Definition reserve_delay (L : limiter) (st : lstate) (t n : Z) : lstate * Z :=
  let '(st', ok, w) := reserve L st t n inf_duration in (st', if ok then w else inf_duration).

(* Limiter.TokensAt(t) in units *)
Definition tokens_at (L : limiter) (st : lstate) (t : Z) : Z := advance L st t.

(* Limiter.WaitN(ctx, n) with a context that has no deadline and is not cancelled:
   WErr = error returned (n exceeds burst), WBlock = the wait is InfDuration (never returns in
   practice: 292 years), WSleep d = returns nil after sleeping d *)
Inductive waitres := WErr | WBlock | WSleep (d : Z).
Definition wait_n (L : limiter) (st : lstate) (t n : Z) : lstate * waitres :=
  if (lburst L <? n) && negb (linf L) then (st, WErr)
  else
    let '(st', ok, w) := reserve L st t n inf_duration in
    if negb ok then (st, WErr)
    else if inf_duration <=? w then (st', WBlock) else (st', WSleep w).

(* ---------------------------------------------------------------- Handler.Provision *)
(* read_bytes_per_second = rp/rq (rq > 0), rmax: the configured float is math.MaxFloat64 *)
Record tconfig := {
  rp : Z; rq : Z; rmax : bool; rburst : Z;
  trp : Z; trq : Z; trmax : bool; tburst : Z;
  latency : Z (* ns *)
}.
Record handler := { hlocal : option limiter; htotal : option limiter; hlatency : Z }.

(* int(float64) for a non-negative rational: truncation *)
Definition default_burst (p q : Z) : Z := p / q + 1.

Definition provision (c : tconfig) : option handler :=
  if rp c <? 0 then None else
  let rb := if (0 <? rp c) && (rburst c =? 0) then default_burst (rp c) (rq c) else rburst c in
  if trp c <? 0 then None else
  let tb := if (0 <? trp c) && (tburst c =? 0) then default_burst (trp c) (trq c) else tburst c in
  if rb <? 0 then None else
  if tb <? 0 then None else
  let total := if (0 <? trp c) || (0 <? tb)
               then Some {| lp := trp c; lq := trq c; lburst := tb; linf := trmax c |} else None in
  (* Handle: the per-connection limiter is created with the same test *)
  let local := if (0 <? rp c) || (0 <? rb)
               then Some {| lp := rp c; lq := rq c; lburst := rb; linf := rmax c |} else None in
  Some {| hlocal := local; htotal := total; hlatency := latency c |}.

(* ---------------------------------------------------------------- throttledConn.Read, many connections *)
(* One call Read(p) of the next handler on connection oc.  The schedule supplies: the length of
   p, the delay of the call after the connection became ready (odelay), the scheduling jitter
   after each timer (oj2, oj3: time between a WaitN returning and the next clock reading), and
   how many bytes the inner Read hands over (oavail: clipped to what was asked and what the
   inner connection still holds), and the error the inner Read returns together with those bytes
   (oerr: 0 = nil, 1 = io.EOF, other = another error; io.Reader allows n > 0 with an error, e.g.
   tls.Conn when close_notify follows the last record). *)
Record op := { oc : nat; olen : Z; odelay : Z; oj2 : Z; oj3 : Z; oavail : Z; oerr : Z }.

(* One connection entering Handle at sstart; sjit: lateness of the latency timer; scancel: the
   context is cancelled while waiting for the latency timer *)
Record session := { sstart : Z; sjit : Z; scancel : bool; sdata : list byte }.

Inductive limid := Total | Local (c : nat).
Inductive ev :=
| ERes (id : limid) (t n : Z)                       (* successful reservation of n tokens at t *)
| EBack (id : limid) (j : Z)                        (* a reservation reached the limiter with t = last - j < last *)
| EPull (c : nat) (t batch : Z) (bytes : list byte) (err : Z)
    (* inner Read(p[:batch]) at t returned (bytes, err); throttledConn.Read returns exactly that: (len bytes, err) *)
| EErr (c : nat)                                    (* Read returned a limiter error *)
| EBlock (c : nat).                                 (* Read waits InfDuration *)

Record world := { wtotal : lstate; wlocal : nat -> lstate; winner : nat -> list byte }.

Definition upd {A} (f : nat -> A) (c : nat) (v : A) : nat -> A := fun x => if Nat.eqb x c then v else f x.

Definition zmin (a b : Z) : Z := if b <? a then b else a.

(* batchSize: len(p) clipped to both bursts *)
Definition batch_size (h : handler) (len : Z) : Z :=
  let b1 := match htotal h with Some L => zmin len (lburst L) | None => len end in
  match hlocal h with Some L => zmin b1 (lburst L) | None => b1 end.

Definition clip (k lo hi : Z) : Z := if k <? lo then lo else if hi <? k then hi else k.

(* the instant next.Handle is invoked for a session (Handle's latency wait) *)
Definition ready (h : handler) (s : session) : option Z :=
  if 0 <? hlatency h then (if scancel s then None else Some (sstart s + hlatency h + sjit s))
  else Some (sstart s).

Definition back_ev (id : limid) (st : lstate) (t : Z) : list ev := if t <? last st then [EBack id (last st - t)] else [].

(* one limiter of throttledConn.Read: `if limiter != nil { err := limiter.WaitN(ctx, batchSize) ... }` *)
Definition lim_phase (Lo : option limiter) (id : limid) (st : lstate) (t batch : Z) : lstate * waitres * list ev :=
  match Lo with
  | None => (st, WSleep 0, [])
  | Some L =>
      let '(st', r) := wait_n L st t batch in
      (st', r, back_ev id st t ++ match r with WErr => [] | _ => [ERes id t batch] end)
  end.

(* throttledConn.Read: total limiter first, then the local one, then the inner Read of at most
   batch bytes.  Returns the new world and the events. *)
Definition read_step (h : handler) (t1 : Z) (w : world) (o : op) : world * list ev :=
  let c := oc o in
  let batch := batch_size h (olen o) in
  let '(stT, r1, e1) := lim_phase (htotal h) Total (wtotal w) t1 batch in
  match r1 with
  | WErr => ({| wtotal := stT; wlocal := wlocal w; winner := winner w |}, e1 ++ [EErr c])
  | WBlock => ({| wtotal := stT; wlocal := wlocal w; winner := winner w |}, e1 ++ [EBlock c])
  | WSleep d1 =>
      let t2 := t1 + d1 + oj2 o in
      let '(stL, r2, e2) := lim_phase (hlocal h) (Local c) (wlocal w c) t2 batch in
      match r2 with
      | WErr => ({| wtotal := stT; wlocal := upd (wlocal w) c stL; winner := winner w |}, e1 ++ e2 ++ [EErr c])
      | WBlock => ({| wtotal := stT; wlocal := upd (wlocal w) c stL; winner := winner w |}, e1 ++ e2 ++ [EBlock c])
      | WSleep d2 =>
          let t3 := t2 + d2 + oj3 o in
          let rest := winner w c in
          let k := clip (oavail o) 0 (zmin batch (Z.of_nat (length rest))) in
          let bytes := firstn (Z.to_nat k) rest in
          ({| wtotal := stT; wlocal := upd (wlocal w) c stL; winner := upd (winner w) c (skipn (Z.to_nat k) rest) |},
           e1 ++ e2 ++ [EPull c t3 batch bytes (oerr o)])
      end
  end.

Definition init_world (h : handler) (ss : list session) : world :=
  {| wtotal := match htotal h with Some L => new_limiter L | None => {| tok := 0; last := 0 |} end;
     wlocal := fun _ => match hlocal h with Some L => new_limiter L | None => {| tok := 0; last := 0 |} end;
     winner := fun c => match nth_error ss c with Some s => sdata s | None => [] end |}.

(* one step of the schedule: ops of connections whose Handle never reached next.Handle (unknown
   connection, cancelled during the latency wait) do nothing *)
Definition sched_step (h : handler) (ss : list session) (acc : world * list ev) (o : op) : world * list ev :=
  match nth_error ss (oc o) with
  | None => acc
  | Some s =>
      match ready h s with
      | None => acc
      | Some rdy =>
          let '(w', e) := read_step h (rdy + odelay o) (fst acc) o in (w', snd acc ++ e)
      end
  end.

Definition run (h : handler) (ss : list session) (ops : list op) : world * list ev :=
  fold_left (sched_step h ss) ops (init_world h ss, []).

(* ---------------------------------------------------------------- chains of throttle handlers *)
(* Several throttle handlers in one chain: each Handle swaps cx.Conn for its own throttledConn
   around what is there, so a Read of the next handler goes through the wrappers from the last
   handler of the chain (outermost) to the first (innermost) and only then reaches the socket.
   Each stage is a handler with its own world (its total limiter, its per-connection limiters) and
   its own trace.  The head of the list is the outermost wrapper.  A stage asks the stage below
   for at most its batch; the bytes come back at the instant of the raw read (tpull), which is
   what every stage on the way records. *)
Definition stage := (handler * world * list ev)%type.

(* the instant at which read_step would call the inner Read, and with what size; None when a
   limiter of this stage rejects or blocks (the stage below is not reached) *)
Definition ready_time (h : handler) (t1 : Z) (w : world) (o : op) : option (Z * Z) :=
  let batch := batch_size h (olen o) in
  let '(_, r1, _) := lim_phase (htotal h) Total (wtotal w) t1 batch in
  match r1 with
  | WSleep d1 =>
      let t2 := t1 + d1 + oj2 o in
      let '(_, r2, _) := lim_phase (hlocal h) (Local (oc o)) (wlocal w (oc o)) t2 batch in
      match r2 with WSleep d2 => Some (t2 + d2, batch) | _ => None end
  | _ => None
  end.

Definition set_len (o : op) (l : Z) : op :=
  {| oc := oc o; olen := l; odelay := odelay o; oj2 := oj2 o; oj3 := oj3 o; oavail := oavail o; oerr := oerr o |}.
Definition set_j3 (o : op) (j : Z) : op :=
  {| oc := oc o; olen := olen o; odelay := odelay o; oj2 := oj2 o; oj3 := j; oavail := oavail o; oerr := oerr o |}.

(* one Read(p) of the next handler at instant t; jraw: how long the raw socket Read takes *)
Fixpoint chain_read (ss : list stage) (t : Z) (o : op) (jraw : Z) : list stage * Z :=
  match ss with
  | [] => ([], t + jraw)
  | (h, w, tr) :: rest =>
      match ready_time h t w o with
      | Some (trdy, batch) =>
          let '(rest', tpull) := chain_read rest trdy (set_len o batch) jraw in
          let '(w', e) := read_step h t w (set_j3 o (tpull - trdy)) in
          ((h, w', tr ++ e) :: rest', tpull)
      | None =>
          let '(w', e) := read_step h t w o in ((h, w', tr ++ e) :: rest, t)
      end
  end.

(* a schedule of Reads: (instant of the call, the op, duration of the raw Read) *)
Definition chain_run (ss : list stage) (reads : list (Z * op * Z)) : list stage :=
  fold_left (fun ss r => match r with (t, o, j) => fst (chain_read ss t o j) end) reads ss.

Definition chain_init (hs : list handler) (sess : list session) : list stage :=
  map (fun h => (h, init_world h sess, [])) hs.

(* ---------------------------------------------------------------- in front of the throttled conn *)
(* layer4.Connection.Read outside matching mode.  Handle swaps cx.Conn for the throttledConn in
   place, so the bytes cx holds already (prefetched by matchers, not yet consumed) stay in front:
   a Read hands out buffered bytes first, without touching cx.Conn, and only when the buffer is
   empty goes to cx.Conn.  inl n: n bytes served from the buffer; inr l: Read(p) with len p = l
   passed on to the throttledConn. *)
Fixpoint cx_plan (buffered : Z) (lens : list Z) : list (Z + Z) :=
  match lens with
  | [] => []
  | l :: r =>
      if 0 <? buffered then let n := zmin l buffered in inl n :: cx_plan (buffered - n) r
      else inr l :: cx_plan buffered r
  end.
Definition from_buffer (plan : list (Z + Z)) : Z :=
  fold_right (fun x a => match x with inl n => n + a | inr _ => a end) 0 plan.

(* ---------------------------------------------------------------- observables of a trace *)
Definition pull_len (c : option nat) (T : Z) (e : ev) : Z :=
  match e with
  | EPull c' t _ bytes _ =>
      if (t <=? T) && match c with None => true | Some c0 => Nat.eqb c' c0 end then Z.of_nat (length bytes) else 0
  | _ => 0
  end.
(* bytes pulled from connection c (Some c) / from all connections (None) by time T *)
Definition pulled (c : option nat) (T : Z) (tr : list ev) : Z :=
  fold_right (fun e a => pull_len c T e + a) 0 tr.

Fixpoint stream_of (c : nat) (tr : list ev) : list byte :=
  match tr with
  | [] => []
  | EPull c' _ _ bytes _ :: r => if Nat.eqb c' c then bytes ++ stream_of c r else stream_of c r
  | _ :: r => stream_of c r
  end.

Definition is_back (e : ev) : bool := match e with EBack _ _ => true | _ => false end.
Definition clock_ordered (tr : list ev) : Prop := forall id j, ~ In (EBack id j) tr.

Definition op_ok (o : op) : Prop := 0 <= olen o /\ 0 <= odelay o /\ 0 <= oj2 o /\ 0 <= oj3 o.
Definition session_ok (s : session) : Prop := 0 <= sstart s /\ 0 <= sjit s.
Definition limiter_ok (L : limiter) : Prop := 0 <= lp L /\ 0 < lq L /\ 0 <= lburst L.
