(* Model of modules/l4proxy/loadbalancing.go (selection policies) and the availability
   predicates of modules/l4proxy/upstream.go.  No proofs here: this file must keep evaluating
   when a proof breaks.

   Transcription conventions
   - a pool is a list of upstreams; policies return the *index* of the chosen upstream
     (pointer identity in Go), [Nil] for a nil result and [Panic] where Go would panic
     (index out of range).
   - Go ints are unbounded Z here except [robin], a uint32 whose wrap is explicit.
   - math/rand is an explicit oracle: [ints] are the successive results of weakrand.Int(),
     [draws] the successive results of weakrand.Intn(n) made by random_choose's loop and
     [final m] the result of the closing weakrand.Intn(m) in leastConns. *)
From Coq Require Import List ZArith NArith Bool.
From Coq.Strings Require Import Byte.
From L4 Require Import Hex.
Import ListNotations.
Open Scope Z_scope.

Record peer := { numConns : Z; unhealthy : Z; fails : Z }.

Record upstream := {
  peers    : list peer;
  maxConns : Z;          (* Upstream.MaxConnections *)
  maxFails : Z;          (* healthCheckPolicy.MaxFails, 0 when there is no passive policy *)
  uname    : list byte   (* Upstream.String() = strings.Join(Dial, ",") *)
}.

(* peer.healthy / Upstream.healthy / full / available / totalConns *)
Definition peer_healthy (p : peer) : bool := unhealthy p =? 0.

Definition healthy (u : upstream) : bool :=
  forallb peer_healthy (peers u) &&
  (if 0 <? maxFails u then forallb (fun p => fails p <? maxFails u) (peers u) else true).

Definition full (u : upstream) : bool :=
  if maxConns u =? 0 then false else existsb (fun p => maxConns u <=? numConns p) (peers u).

Definition available (u : upstream) : bool := healthy u && negb (full u).

Definition totalConns (u : upstream) : Z := fold_left (fun a p => a + numConns p) (peers u) 0.

Inductive sel := Sel (i : nat) | Nil | Panic.

Definition indexed {A} (l : list A) : list (nat * A) := combine (seq 0 (length l)) l.

(* ---- first ---- *)
Fixpoint first_go (l : list (nat * upstream)) : sel :=
  match l with
  | [] => Nil
  | (i, u) :: r => if available u then Sel i else first_go r
  end.
Definition first (pool : list upstream) : sel := first_go (indexed pool).

(* ---- random (reservoir sampling with weakrand.Int() % count) ---- *)
Fixpoint random_go (l : list (nat * upstream)) (ints : list Z) (count : Z) (cur : sel) : sel :=
  match l with
  | [] => cur
  | (i, u) :: r =>
      if available u then
        let count' := count + 1 in
        random_go r (tl ints) count' (if (hd 0 ints) mod count' =? 0 then Sel i else cur)
      else random_go r ints count cur
  end.
Definition random (pool : list upstream) (ints : list Z) : sel := random_go (indexed pool) ints 0 Nil.

(* ---- least_conn ---- *)
Fixpoint least_conn_go (l : list (nat * upstream)) (ints : list Z) (least count : Z) (best : sel) : sel :=
  match l with
  | [] => best
  | (i, u) :: r =>
      if available u then
        let t := totalConns u in
        let '(least1, count1) := if (least =? -1) || (t <? least) then (t, 0) else (least, count) in
        if t =? least1 then
          let count2 := count1 + 1 in
          least_conn_go r (tl ints) least1 count2 (if (hd 0 ints) mod count2 =? 0 then Sel i else best)
        else least_conn_go r ints least1 count1 best
      else least_conn_go r ints least count best
  end.
Definition least_conn (pool : list upstream) (ints : list Z) : sel :=
  least_conn_go (indexed pool) ints (-1) 0 Nil.

(* ---- round_robin ---- *)
Definition two32 : Z := 4294967296.

(* the for-loop: [fuel] counts the remaining iterations (n in total) *)
Fixpoint rr_go (pool : list upstream) (n : Z) (fuel : nat) (robin : Z) : sel * Z :=
  match fuel with
  | O => (Nil, robin)
  | S f =>
      let robin' := (robin + 1) mod two32 in
      let idx := Z.to_nat (robin' mod n) in
      match nth_error pool idx with
      | None => (Panic, robin')
      | Some host => if available host then (Sel idx, robin') else rr_go pool n f robin'
      end
  end.
Definition round_robin (pool : list upstream) (robin : Z) : sel * Z :=
  let n := Z.of_nat (length pool) in
  if n =? 0 then (Nil, robin) else rr_go pool n (length pool) robin.

(* ---- ip_hash ---- *)
Definition fnv_offset : N := 2166136261%N.
Definition fnv_prime : N := 16777619%N.
Definition fnv32a (s : list byte) : N :=
  fold_left (fun h b => (N.lxor h (Byte.to_N b) * fnv_prime) mod 4294967296)%N s fnv_offset.

Section HRW.
  Variable hashf : list byte -> N.
  (* hostByHashing: cur = (upstream, highestHash) *)
  Fixpoint hrw_go (l : list (nat * upstream)) (s : list byte) (cur : sel) (highest : N) : sel :=
    match l with
    | [] => cur
    | (i, u) :: r =>
        if available u then
          let h := hashf (uname u ++ s) in
          if (match cur with Sel _ => false | _ => true end) || (highest <? h)%N
          then hrw_go r s (Sel i) h else hrw_go r s cur highest
        else hrw_go r s cur highest
    end.
  Definition hrw (pool : list upstream) (s : list byte) : sel := hrw_go (indexed pool) s Nil 0%N.
End HRW.
Definition ip_hash (pool : list upstream) (client_ip : list byte) : sel := hrw fnv32a pool client_ip.

(* ---- random_choose ---- *)
Fixpoint set_nth {A} (l : list A) (i : nat) (x : A) : list A :=
  match l, i with
  | [], _ => []
  | _ :: r, O => x :: r
  | y :: r, S i' => y :: set_nth r i' x
  end.

(* reservoir of size k over the available members; choices hold pool indices *)
Fixpoint rc_go (l : list (nat * upstream)) (k : Z) (draws : list Z) (n : Z) (choices : list nat)
  : option (list nat) :=   (* None = index out of range (Go would panic) *)
  match l with
  | [] => Some choices
  | (i, u) :: r =>
      if available u then
        let n' := n + 1 in
        if Z.of_nat (length choices) <? k then rc_go r k draws n' (choices ++ [i])
        else
          let j := hd 0 draws in
          if j <? k then
            if (0 <=? j) && (Z.to_nat j <? length choices)%nat
            then rc_go r k (tl draws) n' (set_nth choices (Z.to_nat j) i)
            else None
          else rc_go r k (tl draws) n' choices
      else rc_go r k draws n choices
  end.

(* leastConns over the sampled indices *)
Fixpoint lc_go (pool : list upstream) (cs : list nat) (best : list nat) (bestReqs : Z) : sel + list nat :=
  match cs with
  | [] => inr best
  | c :: r =>
      match nth_error pool c with
      | None => inl Panic
      | Some u =>
          let reqs := totalConns u in
          if reqs =? 0 then inl (Sel c) else
          let '(bestReqs1, best1) := if (bestReqs =? -1) || (reqs <? bestReqs) then (reqs, []) else (bestReqs, best) in
          if reqs =? bestReqs1 then lc_go pool r (best1 ++ [c]) bestReqs1 else lc_go pool r best1 bestReqs1
      end
  end.

Definition leastConns (pool : list upstream) (cs : list nat) (final : list Z) : sel :=
  match cs with
  | [] => Nil
  | _ =>
    match lc_go pool cs [] (-1) with
    | inl s => s
    | inr [] => Nil
    | inr best =>
        (* best[weakrand.Intn(len(best))]; final is indexed by len(best)-1 *)
        let x := nth (length best - 1) final 0 in
        if (0 <=? x) then match nth_error best (Z.to_nat x) with Some c => Sel c | None => Panic end
        else Panic
    end
  end.

Definition random_choose (choose : Z) (pool : list upstream) (draws final : list Z) : sel :=
  let k := Z.min choose (Z.of_nat (length pool)) in
  match rc_go (indexed pool) k draws 0 [] with
  | None => Panic
  | Some cs => leastConns pool cs final
  end.
