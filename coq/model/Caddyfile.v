(* C15 - model of the layer4 Caddyfile grammar (layer4/caddyfile.go, Server/ListenerWrapper/
   subroute/tee/not UnmarshalCaddyfile) over Caddyfile token streams, an abstract configuration
   AST with a printer to tokens and a printer to JSON.  No proofs here (proofs/CaddyfileProofs.v).

   What is modelled
   - tokens: words, "{", "}", and line breaks (the real lexer gives line numbers; the engine turns
     a change of line into [NL]).  [parse_segs] is the block structure every Dispenser loop
     (Next/NextArg/NextBlock/NextSegment) walks: a directive is the words of a line plus an optional
     block of directives ("segment" in Caddy's vocabulary).
   - layer4/caddyfile.go on segments: ParseCaddyfileNestedMatcherSet ([parse_mset]),
     ParseCaddyfileNestedHandlers ([parse_handler] per entry), ParseCaddyfileNestedRoutes
     ([parse_entry] + [assemble]), SetModuleNameInline ([set_inline]), parseLayer4 ([parse_layer4_blocks]),
     Server/ListenerWrapper/subroute/tee/not UnmarshalCaddyfile.
   - each other module's UnmarshalCaddyfile is a LEAF: [mleaf_parse]/[hleaf_parse : name -> seg -> option json]
     (concrete leaves: model/CaddyfileLeaves.v).
   Not modelled: Caddy's lexer (quoting, heredocs, env, imports), the Dispenser cursor itself, error
   texts (every rejection is [None]), the httpcaddyfile adapter around the global option. *)
From Coq Require Import List ZArith NArith Bool String Ascii DecimalString DecimalN Decimal.
Import ListNotations.
Open Scope string_scope.
Open Scope list_scope.

(* ------------------------------------------------------------------ helpers *)
Definition obind {A B} (o : option A) (f : A -> option B) : option B :=
  match o with Some a => f a | None => None end.
Notation "x <- e ;; k" := (obind e (fun x => k)) (at level 61, e at next level, right associativity).

Section Traverse.
  Context {A B : Type}.
  Variable f : A -> option B.
  Fixpoint traverse (l : list A) : option (list B) :=
    match l with
    | [] => Some []
    | a :: r => match f a with
                | None => None
                | Some b => match traverse r with None => None | Some bs => Some (b :: bs) end
                end
    end.
End Traverse.

Fixpoint has_dup (l : list string) : bool :=
  match l with [] => false | x :: r => existsb (String.eqb x) r || has_dup r end.

Fixpoint assoc {V} (k : string) (l : list (string * V)) : option V :=
  match l with [] => None | (k', v) :: r => if String.eqb k k' then Some v else assoc k r end.

(* ------------------------------------------------------------------ decimal numbers, durations *)
Definition print_N (n : N) : string := NilEmpty.string_of_uint (N.to_uint n).
(* strconv.ParseUint(s, 10, bits): digits only, non-empty, value below 2^bits *)
Definition parse_N (s : string) : option N :=
  match s with
  | EmptyString => None
  | _ => option_map N.of_uint (NilEmpty.uint_of_string s)
  end.
Definition parse_uint (bits : N) (s : string) : option N :=
  n <- parse_N s ;; if (n <? 2 ^ bits)%N then Some n else None.
(* strconv.ParseInt(s, 10, bits): optional sign, digits, range check *)
Definition parse_int (bits : N) (s : string) : option Z :=
  match s with
  | String c r =>
      if Ascii.eqb c "-" then n <- parse_N r ;; if (n <=? 2 ^ (bits - 1))%N then Some (- Z.of_N n)%Z else None
      else if Ascii.eqb c "+" then n <- parse_N r ;; if (n <? 2 ^ (bits - 1))%N then Some (Z.of_N n) else None
      else n <- parse_N s ;; if (n <? 2 ^ (bits - 1))%N then Some (Z.of_N n) else None
  | EmptyString => None
  end.
Definition print_Z (z : Z) : string :=
  match z with
  | Zneg p => String "-" (print_N (Npos p))
  | _ => print_N (Z.to_N z)
  end.

(* caddy.ParseDuration restricted to one integer component: <digits><unit>, unit in ns us ms s m h d *)
Inductive dunit := Uns | Uus | Ums | Us | Um | Uh | Ud.
Definition unit_ns (u : dunit) : N :=
  match u with
  | Uns => 1 | Uus => 1000 | Ums => 1000000 | Us => 1000000000
  | Um => 60000000000 | Uh => 3600000000000 | Ud => 86400000000000
  end%N.
Definition unit_str (u : dunit) : string :=
  match u with Uns => "ns" | Uus => "us" | Ums => "ms" | Us => "s" | Um => "m" | Uh => "h" | Ud => "d" end.
Definition parse_unit (s : string) : option dunit :=
  if s =? "ns" then Some Uns else if s =? "us" then Some Uus else if s =? "ms" then Some Ums
  else if s =? "s" then Some Us else if s =? "m" then Some Um else if s =? "h" then Some Uh
  else if s =? "d" then Some Ud else None.
Record dur := Dur { dn : N; du : dunit }.
Definition dur_ns (d : dur) : Z := Z.of_N (dn d * unit_ns (du d)).
Definition print_dur (d : dur) : string := (print_N (dn d) ++ unit_str (du d))%string.
Definition is_digit (c : ascii) : bool := let n := N_of_ascii c in (48 <=? n)%N && (n <=? 57)%N.
Fixpoint span_digits (s : string) : string * string :=
  match s with
  | EmptyString => (EmptyString, EmptyString)
  | String c r => if is_digit c then let (a, b) := span_digits r in (String c a, b) else (EmptyString, s)
  end.
Definition max_dur_ns : N := 9223372036854775807.
Definition parse_duration (s : string) : option Z :=
  let (ds, us) := span_digits s in
  n <- parse_N ds ;; u <- parse_unit us ;;
  if (n * unit_ns u <=? max_dur_ns)%N then Some (Z.of_N (n * unit_ns u)) else None.

(* ------------------------------------------------------------------ JSON values *)
Inductive json :=
| JNull | JBool (b : bool) | JNum (z : Z) | JStr (s : string)
| JArr (l : list json) | JObj (l : list (string * json))
| JFloat (s : string).   (* a non-integral number, by its decimal literal *)

Fixpoint insert_kv {V} (k : string) (v : V) (l : list (string * V)) : list (string * V) :=
  match l with
  | [] => [(k, v)]
  | (k', v') :: r => if String.leb k k' then (k, v) :: l else (k', v') :: insert_kv k v r
  end.
(* encoding/json writes map keys in sorted order *)
Fixpoint sort_kv {V} (l : list (string * V)) : list (string * V) :=
  match l with [] => [] | (k, v) :: r => insert_kv k v (sort_kv r) end.

(* what a decode into map[string]any followed by an encode does: every object sorted *)
Fixpoint canon (j : json) : json :=
  match j with
  | JArr l => JArr (map canon l)
  | JObj l => JObj (sort_kv (map (fun kv => match kv with (k, v) => (k, canon v) end) l))
  | _ => j
  end.

Fixpoint json_eqb (a b : json) {struct a} : bool :=
  match a, b with
  | JNull, JNull => true
  | JBool x, JBool y => Bool.eqb x y
  | JNum x, JNum y => Z.eqb x y
  | JStr x, JStr y => String.eqb x y
  | JFloat x, JFloat y => String.eqb x y
  | JArr x, JArr y =>
      (fix go (x y : list json) : bool :=
         match x, y with
         | [], [] => true
         | a :: x', b :: y' => json_eqb a b && go x' y'
         | _, _ => false
         end) x y
  | JObj x, JObj y =>
      (fix go (x y : list (string * json)) : bool :=
         match x, y with
         | [], [] => true
         | (k, a) :: x', (k', b) :: y' => String.eqb k k' && json_eqb a b && go x' y'
         | _, _ => false
         end) x y
  | _, _ => false
  end.

(* struct encoding with omitempty: fields given as (key, Some v) when present *)
Fixpoint omit (fs : list (string * option json)) : list (string * json) :=
  match fs with
  | [] => []
  | (k, Some v) :: r => (k, v) :: omit r
  | (_, None) :: r => omit r
  end.
Definition o_strs (l : list string) : option json := match l with [] => None | _ => Some (JArr (map JStr l)) end.
Definition o_arr (l : list json) : option json := match l with [] => None | _ => Some (JArr l) end.
Definition o_nums (l : list N) : option json := match l with [] => None | _ => Some (JArr (map (fun n => JNum (Z.of_N n)) l)) end.
Definition o_num (z : Z) : option json := if (z =? 0)%Z then None else Some (JNum z).
Definition o_str (s : string) : option json := if s =? "" then None else Some (JStr s).
Definition o_bool (b : bool) : option json := if b then Some (JBool true) else None.
Definition o_obj (l : list (string * json)) : option json := match l with [] => None | _ => Some (JObj l) end.

Fixpoint remove_key {V} (k : string) (l : list (string * V)) : list (string * V) :=
  match l with [] => [] | (k', v) :: r => if String.eqb k k' then remove_key k r else (k', v) :: remove_key k r end.
(* layer4.SetModuleNameInline / caddyconfig.JSONModuleObject: decode to a map, set the key, encode *)
Definition set_inline (key name : string) (j : json) : option json :=
  match j with
  | JObj l => Some (canon (JObj ((key, JStr name) :: remove_key key l)))
  | _ => None
  end.
Definition set_inline_t (key name : string) (j : json) : json :=
  match set_inline key name j with Some r => r | None => j end.

(* ------------------------------------------------------------------ tokens and segments *)
Inductive tok := W (s : string) | LB | RB | NL.
(* a directive: the words of its line, whether a block follows, the directives in the block *)
Inductive seg := Seg (ws : list string) (hb : bool) (body : list seg).

Fixpoint print_seg (s : seg) : list tok :=
  match s with
  | Seg ws hb body =>
      map W ws ++ (if hb then LB :: NL :: flat_map print_seg body ++ [RB; NL] else [NL])
  end.
Definition print_segs (l : list seg) : list tok := flat_map print_seg l.

Fixpoint take_words (ts : list tok) : list string * list tok :=
  match ts with
  | W s :: r => let (ws, r') := take_words r in (s :: ws, r')
  | _ => ([], ts)
  end.

(* the directives up to the closing brace of the enclosing block (or the end of input); returns
   the rest starting at that brace.  Layouts the real Dispenser treats specially ("{" not last
   on its line, text after "}") are outside the model: [None]. *)
Fixpoint parse_segs (fuel : nat) (ts : list tok) : option (list seg * list tok) :=
  match fuel with
  | O => None
  | S f =>
      match ts with
      | [] => Some ([], [])
      | RB :: _ => Some ([], ts)
      | NL :: r => parse_segs f r
      | _ =>
          let (ws, r) := take_words ts in
          match r with
          | [] => Some ([Seg ws false []], [])
          | NL :: r' =>
              match parse_segs f r' with
              | Some (ss, r'') => Some (Seg ws false [] :: ss, r'')
              | None => None
              end
          | LB :: NL :: r' =>
              match parse_segs f r' with
              | Some (body, RB :: NL :: r2) =>
                  match parse_segs f r2 with
                  | Some (ss, r3) => Some (Seg ws true body :: ss, r3)
                  | None => None
                  end
              | Some (body, [RB]) => Some ([Seg ws true body], [])
              | _ => None
              end
          | _ => None
          end
      end
  end.
Definition parse_file (ts : list tok) : option (list seg) :=
  match parse_segs (S (List.length ts)) ts with
  | Some (ss, []) => Some ss
  | _ => None
  end.

Definition seg_words (s : seg) : list string := match s with Seg ws _ _ => ws end.
Definition seg_name (s : seg) : string := match seg_words s with n :: _ => n | [] => "" end.

(* ------------------------------------------------------------------ layer4/caddyfile.go *)
Definition not_json (ms : list (string * json)) : json := JArr [JObj ms].
Definition tee_json (hs : list json) : json := JObj (omit [("branch", o_arr hs)]).
Definition route_json (ms hs : list json) : json := JObj (omit [("match", o_arr ms); ("handle", o_arr hs)]).
Definition rblock_fields (rs : list json) (mt : Z) : list (string * option json) :=
  [("routes", o_arr rs); ("matching_timeout", o_num mt)].
Definition is_mset_name (w : string) : bool :=
  match w with String "@" (String _ _) => true | _ => false end.

Inductive entry :=
| EMset (name : string) (s : seg)
| ETimeout (ns : Z)
| ERoute (refs : list string) (hs : list json).

Section Grammar.
  (* the leaves: UnmarshalCaddyfile of a matcher / handler module applied to its segment (first
     word = module name), then encoding/json of the module *)
  Variable mleaf_parse : string -> seg -> option json.
  Variable hleaf_parse : string -> seg -> option json.

  (* ParseCaddyfileNestedMatcherSet, dispenser on the wrapper name (first word of [s]):
     "d.NextArg() || d.NextBlock(nesting)": with a same-line argument the set is that single
     matcher, whose segment is the rest of the line plus the block; otherwise one matcher per
     directive of the block.  MatchNot.UnmarshalCaddyfile re-enters after consuming "not". *)
  Fixpoint parse_mset (s : seg) : option (list (string * json)) :=
    match s with
    | Seg ws hb body =>
        (fix inline (args : list string) : option (list (string * json)) :=
           match args with
           | [] =>
               if has_dup (map seg_name body) then None else
               ms <- traverse (fun e =>
                       j <- (if seg_name e =? "not" then option_map not_json (parse_mset e)
                             else mleaf_parse (seg_name e) e) ;;
                       Some (seg_name e, j)) body ;;
               Some (sort_kv ms)
           | a :: rest =>
               j <- (if a =? "not" then option_map not_json (inline rest)
                     else mleaf_parse a (Seg args hb body)) ;;
               Some [(a, j)]
           end) (tl ws)
    end.

  (* one directive of a ParseCaddyfileNestedRoutes block *)
  Definition parse_entry (ph : seg -> option json) (en : seg) : option entry :=
    match en with
    | Seg ws hb body =>
        match ws with
        | [] => None
        | w :: args =>
            if is_mset_name w then Some (EMset w en)
            else if w =? "matching_timeout" then
              match args, hb with
              | [a], false => ns <- parse_duration a ;; Some (ETimeout ns)
              | _, _ => None
              end
            else if w =? "route" then hs <- traverse ph body ;; Some (ERoute args hs)
            else None
        end
    end.

  Definition mset_nonempty (s : seg) : bool :=
    match s with
    | Seg (_ :: _ :: _) _ _ => true
    | Seg _ hb (_ :: _) => hb
    | _ => false
    end.

  Fixpoint entry_msets (es : list entry) : list (string * seg) :=
    match es with [] => [] | EMset n s :: r => (n, s) :: entry_msets r | _ :: r => entry_msets r end.
  Fixpoint entry_timeouts (es : list entry) : list Z :=
    match es with [] => [] | ETimeout z :: r => z :: entry_timeouts r | _ :: r => entry_timeouts r end.
  Fixpoint entry_routes (es : list entry) : list (list string * list json) :=
    match es with [] => [] | ERoute a b :: r => (a, b) :: entry_routes r | _ :: r => entry_routes r end.

  (* the second half of ParseCaddyfileNestedRoutes: named sets are parsed, routes resolved *)
  Definition assemble (es : list entry) : option (list json * Z) :=
    let msets := entry_msets es in
    if has_dup (map fst msets) then None else
    mt <- (match entry_timeouts es with [] => Some 0%Z | [z] => Some z | _ => None end) ;;
    sets <- traverse (fun ns => match ns with (n, s) =>
              if mset_nonempty s then m <- parse_mset s ;; Some (n, JObj m) else None end) msets ;;
    rs <- traverse (fun r => match r with (refs, hs) =>
              ms <- traverse (fun ref => assoc ref sets) refs ;; Some (route_json ms hs) end)
            (entry_routes es) ;;
    Some (rs, mt).

  (* one directive of a ParseCaddyfileNestedHandlers block, with tee and subroute unfolded *)
  Fixpoint parse_handler (e : seg) : option json :=
    match e with
    | Seg ws hb body =>
        match ws with
        | [] => None
        | name :: args =>
            j <- (if name =? "tee" then
                    match args with
                    | [] => hs <- traverse parse_handler body ;; Some (tee_json hs)
                    | _ => None
                    end
                  else if name =? "subroute" then
                    match args with
                    | [] => es <- traverse (parse_entry parse_handler) body ;;
                            r <- assemble es ;;
                            Some (JObj (omit (rblock_fields (fst r) (snd r))))
                    | _ => None
                    end
                  else hleaf_parse name e) ;;
            set_inline "handler" name j
        end
    end.

  Definition parse_rblock (body : list seg) : option (list json * Z) :=
    es <- traverse (parse_entry parse_handler) body ;; assemble es.

  (* Server.UnmarshalCaddyfile: every word of the line is a listen address *)
  Definition parse_server (s : seg) : option json :=
    match s with
    | Seg ws hb body =>
        match ws with
        | [] => None
        | _ => r <- parse_rblock body ;;
               Some (JObj (omit (("listen", o_strs ws) :: rblock_fields (fst r) (snd r))))
        end
    end.

  Fixpoint number_servers (i : N) (l : list json) : list (string * json) :=
    match l with [] => [] | s :: r => (("srv" ++ print_N i)%string, s) :: number_servers (i + 1) r end.

  (* parseLayer4 over every global "layer4" block (later blocks continue the numbering) *)
  Definition parse_layer4_blocks (blocks : list seg) : option json :=
    ss <- traverse (fun b => match b with
                             | Seg ["layer4"] _ servers => traverse parse_server servers
                             | _ => None end) blocks ;;
    Some (JObj (omit [("servers", o_obj (sort_kv (number_servers 0 (List.concat ss))))])).

  (* the whole file in global-option form: "{ layer4 { ... } ... }" *)
  Definition adapt (ts : list tok) : option json :=
    file <- parse_file ts ;;
    match file with
    | [Seg [] true (b :: bs)] =>
        app <- parse_layer4_blocks (b :: bs) ;;
        Some (JObj [("apps", JObj [("layer4", app)])])
    | _ => None
    end.

  (* ListenerWrapper.UnmarshalCaddyfile + JSONModuleObject(.., "wrapper", "layer4") *)
  Definition parse_lw (s : seg) : option json :=
    match s with
    | Seg ["layer4"] hb body =>
        r <- parse_rblock body ;;
        set_inline "wrapper" "layer4" (JObj (omit (rblock_fields (fst r) (snd r))))
    | _ => None
    end.
  Definition is_layer4 (s : seg) : bool := seg_name s =? "layer4".
  (* listener-wrapper form: "{ servers { listener_wrappers { layer4 {..} ... } } }" + site blocks;
     the result is the list of layer4 wrapper objects in order *)
  Definition adapt_lw (ts : list tok) : option (list json) :=
    file <- parse_file ts ;;
    match file with
    | Seg [] true [Seg ["servers"] true [Seg ["listener_wrappers"] true lws]] :: _ =>
        traverse parse_lw (filter is_layer4 lws)
    | _ => None
    end.
End Grammar.

(* ------------------------------------------------------------------ abstract configurations *)
Section AST.
  Variables mleaf hleaf : Type.
  Variable mleaf_name : mleaf -> string.
  Variable mleaf_seg : mleaf -> seg.
  Variable mleaf_json : mleaf -> json.
  Variable hleaf_name : hleaf -> string.
  Variable hleaf_seg : hleaf -> seg.
  Variable hleaf_json : hleaf -> json.   (* the module's own fields, without the inline key *)

  (* [il]: written on the wrapper's line ("not ssh", "@a ssh") instead of in a block *)
  Inductive matcher := MLeaf (x : mleaf) | MNot (il : bool) (ms : list matcher).
  Definition mset : Type := string * bool * list matcher.
  Inductive handler :=
  | HLeaf (x : hleaf)
  | HTee (hs : list handler)
  | HSubroute (mt : option dur) (sets : list mset) (routes : list (list string * list handler)).
  Record rblock := RBlock { rb_mt : option dur; rb_sets : list mset;
                            rb_routes : list (list string * list handler) }.
  Record server := Server { sv_listen : list string; sv_block : rblock }.
  (* global form: the servers of each "layer4" global block *)
  Definition config : Type := list (list server).

  Definition matcher_name (m : matcher) : string :=
    match m with MLeaf x => mleaf_name x | MNot _ _ => "not" end.

  (* ---- printer to segments / tokens *)
  Definition set_seg (w : string) (il : bool) (entries : list seg) : seg :=
    match il, entries with
    | true, [Seg ws hb body] => Seg (w :: ws) hb body
    | _, _ => Seg [w] true entries
    end.
  Fixpoint matcher_seg (m : matcher) : seg :=
    match m with
    | MLeaf x => mleaf_seg x
    | MNot il ms => set_seg "not" il (map matcher_seg ms)
    end.
  Definition mset_seg (s : mset) : seg :=
    match s with (n, il, ms) => set_seg n il (map matcher_seg ms) end.
  Definition mt_segs (mt : option dur) : list seg :=
    match mt with Some d => [Seg ["matching_timeout"; print_dur d] false []] | None => [] end.
  Fixpoint handler_seg (h : handler) : seg :=
    match h with
    | HLeaf x => hleaf_seg x
    | HTee hs => Seg ["tee"] true (map handler_seg hs)
    | HSubroute mt sets routes =>
        Seg ["subroute"] true
          (mt_segs mt ++ map mset_seg sets ++
           map (fun r => match r with (refs, hs) => Seg ("route" :: refs) true (map handler_seg hs) end) routes)
    end.
  Definition route_seg (r : list string * list handler) : seg :=
    match r with (refs, hs) => Seg ("route" :: refs) true (map handler_seg hs) end.
  Definition rblock_segs (b : rblock) : list seg :=
    mt_segs (rb_mt b) ++ map mset_seg (rb_sets b) ++ map route_seg (rb_routes b).
  Definition server_seg (s : server) : seg := Seg (sv_listen s) true (rblock_segs (sv_block s)).
  Definition config_seg (c : config) : seg :=
    Seg [] true (map (fun servers => Seg ["layer4"] true (map server_seg servers)) c).
  Definition print_caddyfile (c : config) : list tok := print_seg (config_seg c).

  Definition lw_file_segs (b : rblock) (others sites : list seg) : list seg :=
    Seg [] true [Seg ["servers"] true [Seg ["listener_wrappers"] true
                   (Seg ["layer4"] true (rblock_segs b) :: others)]] :: sites.
  Definition print_caddyfile_lw (b : rblock) (others sites : list seg) : list tok :=
    print_segs (lw_file_segs b others sites).

  (* ---- printer to JSON: what the configuration states *)
  Fixpoint matcher_json (m : matcher) : json :=
    match m with
    | MLeaf x => mleaf_json x
    | MNot _ ms => not_json (sort_kv (map (fun m' => (matcher_name m', matcher_json m')) ms))
    end.
  Definition mset_json (ms : list matcher) : json :=
    JObj (sort_kv (map (fun m => (matcher_name m, matcher_json m)) ms)).
  Definition mt_ns (mt : option dur) : Z := match mt with Some d => dur_ns d | None => 0%Z end.
  Definition lookup_set (sets : list mset) (ref : string) : json :=
    match assoc ref (map (fun s => match s with (n, _, ms) => (n, mset_json ms) end) sets) with
    | Some j => j
    | None => JNull
    end.
  Fixpoint handler_json (h : handler) : json :=
    match h with
    | HLeaf x => set_inline_t "handler" (hleaf_name x) (hleaf_json x)
    | HTee hs => set_inline_t "handler" "tee" (tee_json (map handler_json hs))
    | HSubroute mt sets routes =>
        set_inline_t "handler" "subroute"
          (JObj (omit (rblock_fields
             (map (fun r => match r with (refs, hs) =>
                     route_json (map (lookup_set sets) refs) (map handler_json hs) end) routes)
             (mt_ns mt))))
    end.
  Definition routes_json (sets : list mset) (routes : list (list string * list handler)) : list json :=
    map (fun r => match r with (refs, hs) =>
           route_json (map (lookup_set sets) refs) (map handler_json hs) end) routes.
  Definition rblock_json_fields (b : rblock) : list (string * option json) :=
    rblock_fields (routes_json (rb_sets b) (rb_routes b)) (mt_ns (rb_mt b)).
  Definition server_json (s : server) : json :=
    JObj (omit (("listen", o_strs (sv_listen s)) :: rblock_json_fields (sv_block s))).
  Definition to_json (c : config) : json :=
    JObj [("apps", JObj [("layer4",
      JObj (omit [("servers", o_obj (sort_kv (number_servers 0 (map server_json (List.concat c)))))]))])].
  Definition lw_json (b : rblock) : json :=
    set_inline_t "wrapper" "layer4" (JObj (omit (rblock_json_fields b))).

  (* ---- well-formedness (the domain of the structural theorem) *)
  Variable mleaf_ok : mleaf -> bool.
  Variable hleaf_ok : hleaf -> bool.
  Definition dur_ok (d : dur) : bool := (dn d * unit_ns (du d) <=? max_dur_ns)%N.
  Definition mt_ok (mt : option dur) : bool := match mt with Some d => dur_ok d | None => true end.
  Fixpoint matcher_ok (m : matcher) : bool :=
    match m with
    | MLeaf x => mleaf_ok x
    | MNot _ ms => negb (has_dup (map matcher_name ms)) && forallb matcher_ok ms
    end.
  Definition mset_ok (s : mset) : bool :=
    match s with (n, _, ms) =>
      is_mset_name n && negb (has_dup (map matcher_name ms)) && forallb matcher_ok ms &&
      match ms with [] => false | _ => true end
    end.
  Definition set_names (sets : list mset) : list string := map (fun s => fst (fst s)) sets.
  Definition refs_ok (sets : list mset) (refs : list string) : bool :=
    forallb (fun r => existsb (String.eqb r) (set_names sets)) refs.
  Fixpoint handler_ok (h : handler) : bool :=
    match h with
    | HLeaf x => hleaf_ok x
    | HTee hs => forallb handler_ok hs
    | HSubroute mt sets routes =>
        mt_ok mt && negb (has_dup (set_names sets)) && forallb mset_ok sets &&
        forallb (fun r => match r with (refs, hs) => refs_ok sets refs && forallb handler_ok hs end) routes
    end.
  Definition rblock_ok (b : rblock) : bool :=
    mt_ok (rb_mt b) && negb (has_dup (set_names (rb_sets b))) && forallb mset_ok (rb_sets b) &&
    forallb (fun r => match r with (refs, hs) => refs_ok (rb_sets b) refs && forallb handler_ok hs end)
      (rb_routes b).
  Definition server_ok (s : server) : bool :=
    match sv_listen s with [] => false | _ => rblock_ok (sv_block s) end.
  Definition config_ok (c : config) : bool :=
    match c with [] => false | _ => forallb (forallb server_ok) c end.
End AST.

(* segments that print to a token stream [parse_segs] reads back: a line has words or a block,
   a body only with a block *)
Fixpoint seg_wf (s : seg) : bool :=
  match s with
  | Seg ws hb body =>
      (match ws with [] => hb | _ => true end) &&
      (if hb then true else match body with [] => true | _ => false end) &&
      forallb seg_wf body
  end.

Arguments MLeaf {mleaf} x.
Arguments MNot {mleaf} il ms.
Arguments HLeaf {mleaf hleaf} x.
Arguments HTee {mleaf hleaf} hs.
Arguments HSubroute {mleaf hleaf} mt sets routes.
Arguments RBlock {mleaf hleaf} rb_mt rb_sets rb_routes.
Arguments Server {mleaf hleaf} sv_listen sv_block.
