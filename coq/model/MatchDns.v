(* DNS matcher (modules/l4dns/matcher.go Match, MatchDNSRules.Match, MatchDNSRule.Match) and the gate
   of the QUIC matcher (modules/l4quic/matcher.go Match, up to the hand-over to quic-go).
   Definitions only (lemmas: proofs/MatchDnsProofs.v).

   Delegated and therefore abstract: dns.Msg.Unpack / Msg.Len / ClassToString / TypeToString (the
   parsed message is a [Section] function of the message bytes), Go's regexp engine ([re_match]),
   quic-go behind the gate. *)
From Coq Require Import List NArith ZArith Bool Arith.
From Coq.Strings Require Import Byte.
From L4.gen Require Import Consts Shape.
From L4.model Require Import GoBase.
Import ListNotations.

Definition dns_hdr : nat := Z.to_nat l4dns_dnsHeaderBytes.
Definition dns_max_msg : nat := N.to_nat 65535. (* the largest DNS message (16-bit length; miekg/dns MaxMsgSize) *)
(* the bounds the source compares with, read from the source by the translator (gen/Shape.v): the constant named in
   `msgBytes > ...` of the TCP branch and in `n > ...` of the UDP branch *)
Definition dns_tcp_limit : nat := Z.to_nat l4dns_tcp_size_limit.
Definition dns_udp_limit : nat := Z.to_nat l4dns_udp_size_limit.
Definition dns_min_msg : nat := Z.to_nat l4dns_udp_chunk.   (* size of the UDP read chunk (miekg/dns MinMsgSize) *)

(* what the matcher looks at in the unpacked message *)
Record question := {
  q_name : list byte;
  q_class : option (list byte);   (* dns.ClassToString[q.Qclass], None = not in the table *)
  q_type : option (list byte) }.  (* dns.TypeToString[q.Qtype] *)
Record dnsmsg := {
  d_len : nat;                    (* msg.Len() *)
  d_questions : list question;
  d_response : bool; d_rcode : N; d_zero : bool }.

(* MatchDNSRule: empty string = filter not set *)
Record rule := {
  r_class : list byte; r_class_re : list byte;
  r_name : list byte; r_name_re : list byte;
  r_type : list byte; r_type_re : list byte }.
Record dcfg := { allow : list rule; deny : list rule; default_deny : bool; prefer_allow : bool }.

Definition u16 (n : nat) : nat := N.to_nat (N.of_nat n mod 65536). (* uint16(n) *)
(* strings.ToLower on the question name: miekg/dns presents names in ASCII (other bytes are escaped as \DDD), so only
   the letters A-Z change *)
Definition lower_byte (b : byte) : byte :=
  if (65 <=? bN b)%N && (bN b <=? 90)%N then match Byte.of_N (bN b + 32) with Some c => c | None => b end else b.
Definition lower_ascii (s : list byte) : list byte := map lower_byte s.
Definition nonempty (s : list byte) : bool := match s with [] => false | _ => true end.
Definition nel {A} (l : list A) : bool := match l with [] => false | _ => true end.

Section Dns.
  Variable unpack : list byte -> option dnsmsg.        (* new(dns.Msg).Unpack(buf): None = error *)
  Variable re_match : list byte -> list byte -> bool.  (* regexp.MustCompile(pattern).MatchString(s) *)

  (* one field of MatchDNSRule.Match *)
  Definition field_rejects (lit re v : list byte) : bool :=
    (nonempty lit && negb (bytes_eqb v lit)) || (nonempty re && negb (re_match re v)).
  Definition rule_match (r : rule) (cls typ name : list byte) : bool :=
    if field_rejects (r_class r) (r_class_re r) cls then false else
    if field_rejects (r_type r) (r_type_re r) typ then false else
    if field_rejects (r_name r) (r_name_re r) name then false else true.
  Fixpoint rules_match (rs : list rule) (cls typ name : list byte) : bool :=
    match rs with
    | [] => false
    | r :: rest => if rule_match r cls typ name then true else rules_match rest cls typ name
    end.

  (* the loop over msg.Question with its early returns, line by line *)
  Fixpoint questions_loop (c : dcfg) (qs : list question) : bool :=
    match qs with
    | [] => true
    | q :: rest =>
        match q_class q with
        | None => false
        | Some cls =>
            match q_type q with
            | None => false
            | Some typ =>
                let hasNoAllow := negb (nel (allow c)) in
                let hasNoDeny := negb (nel (deny c)) in
                let name := lower_ascii (q_name q) in     (* nameValue := strings.ToLower(q.Name) *)
                let denied := rules_match (deny c) cls typ name in
                if hasNoAllow && negb hasNoDeny && denied then false else
                let allowed := rules_match (allow c) cls typ name in
                if hasNoDeny && negb hasNoAllow && negb allowed then false else
                if denied then
                  if negb allowed || negb (prefer_allow c) then false else questions_loop c rest
                else
                  if negb allowed && default_deny c then false else questions_loop c rest
            end
        end
    end.

  Definition has_rules (c : dcfg) : bool :=
    negb (negb (nel (allow c)) && negb (nel (deny c))).

  (* everything after framing: Unpack, length equality, query checks, rules *)
  Definition dns_decide (c : dcfg) (buf : list byte) (msg_bytes : nat) : verdict :=
    match unpack buf with
    | None => No
    | Some m =>
        if negb (d_len m =? msg_bytes)%nat then No else
        if (length (d_questions m) =? 0)%nat || d_response m || negb (d_rcode m =? 0)%N || d_zero m then No else
        if has_rules c then (if questions_loop c (d_questions m) then Yes else No) else Yes
    end.

  (* [tcp]: cx.LocalAddr() is a *net.TCPAddr; everything else takes the datagram branch *)
  Definition dns_match (c : dcfg) (tcp : bool) (p : list byte) : verdict :=
    if tcp then
      match read_full 2 p with                      (* binary.Read(cx, BigEndian, &msgBytes) *)
      | None => More
      | Some (lb, r1) =>
          let l := N.to_nat (be_N lb) in
          if (l <? dns_hdr)%nat || (dns_tcp_limit <? l)%nat then No else
          match read_full l r1 with                 (* make([]byte, msgBytes); io.ReadFull *)
          | None => More
          | Some (buf, r2) =>
              match read_full 1 r2 with             (* one extra byte must not be there *)
              | Some _ => No
              | None => dns_decide c buf l
              end
          end
      end
    else
      match read_at_least dns_hdr dns_hdr p with
      | None => More
      | Some (_, _) =>
          (* the ReadAtLeast(tmpBuf, 1) loop drains whatever is buffered: msgBuf = p, n = len p *)
          if (dns_udp_limit <? length p)%nat then No else dns_decide c p (u16 (length p))
      end.

  (* make() sizes: TCP msgBuf + extraBuf; UDP header buffer + tmpBuf + the appended copy (amortised <= 2x) *)
  Definition dns_alloc (tcp : bool) (p : list byte) : N :=
    if tcp then
      match read_full 2 p with
      | None => 2
      | Some (lb, _) => 2 + be_N lb + 1
      end
    else N.of_nat (dns_hdr + dns_min_msg + 2 * length p).

  (* ---- the specification of the rule table, written from the field documentation of MatchDNS ----
     names are case-insensitive (RFC 4343): literal and regexp name filters both see the name in lower case
     no rules                        : every question passes (class and type are not even looked up)
     rules present                   : class and type must be known to the library, and then
       denied and allowed            : passes iff prefer_allow
       denied only                   : rejected
       allowed only                  : passes
       neither                       : with only allow rules: rejected ("deny all unless explicitly allowed");
                                       otherwise passes iff not default_deny *)
  Definition question_spec (c : dcfg) (q : question) : bool :=
    match q_class q, q_type q with
    | Some cls, Some typ =>
        let a := rules_match (allow c) cls typ (lower_ascii (q_name q)) in
        let d := rules_match (deny c) cls typ (lower_ascii (q_name q)) in
        match d, a with
        | true, true => prefer_allow c
        | true, false => false
        | false, true => true
        | false, false =>
            match allow c, deny c with
            | _ :: _, [] => false
            | _, _ => negb (default_deny c)
            end
        end
    | _, _ => false
    end.
  Definition filter_spec (c : dcfg) (qs : list question) : bool :=
    if has_rules c then forallb (question_spec c) qs else true.
End Dns.

(* ---- QUIC gate ---- *)
Definition quic_max : nat := Z.to_nat l4quic_QUICPacketBytesMax.
Definition quic_min : nat := Z.to_nat l4quic_QUICPacketBytesMin.
Inductive gate := GNo | GMore | GPass (pkt : list byte).

(* [udp]: cx.LocalAddr() is a *net.UDPAddr *)
Definition quic_gate (udp : bool) (p : list byte) : gate :=
  if negb udp then GNo else
  match read_at_least 1 1 p with
  | None => GMore
  | Some (b0, r1) =>
      match b0 with
      | [b] =>
          if (N.land (bN b) (Z.to_N l4quic_QUICMagicBitValue) =? 0)%N then GNo else
          if (N.land (bN b) (Z.to_N l4quic_QUICLongHeaderBitValue) =? 0)%N then GNo else
          match read_at_least quic_max 1 r1 with      (* buf[1:] has QUICPacketBytesMax bytes *)
          | None => GMore
          | Some (rest, _) =>
              let n := length rest in
              if (n <? quic_min - 1)%nat || (n =? quic_max)%nat then GNo else GPass (b :: rest)
          end
      | _ => GNo (* unreachable: read_at_least 1 1 returns exactly one byte *)
      end
  end.
Definition quic_alloc : N := N.of_nat (1 + (quic_max + 1)).
