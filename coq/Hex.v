(* Hex decoding of byte strings, used by generated constants and by correspondence case files. *)
From Coq Require Import String Ascii List NArith ZArith.
From Coq.Strings Require Import Byte.
Import ListNotations.

Definition hexval (c : ascii) : option N :=
  let n := N_of_ascii c in
  if (andb (N.leb 48 n) (N.leb n 57)) then Some (n - 48)%N
  else if (andb (N.leb 97 n) (N.leb n 102)) then Some (n - 87)%N
  else if (andb (N.leb 65 n) (N.leb n 70)) then Some (n - 55)%N
  else None.

Definition byte_of_N (n : N) : byte :=
  match Byte.of_N n with Some b => b | None => x00 end.

Fixpoint unhex (s : string) : list byte :=
  match s with
  | String a (String b r) =>
      match hexval a, hexval b with
      | Some h, Some l => byte_of_N (h * 16 + l) :: unhex r
      | _, _ => []
      end
  | _ => []
  end.

Definition b2n (b : byte) : N := Byte.to_N b.
Definition b2z (b : byte) : Z := Z.of_N (Byte.to_N b).
