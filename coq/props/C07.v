(* C07 - The TLS matcher reads SNI/ALPN/versions exactly as a real TLS server does.
   Property theorems only; every proof is [exact <lemma>] (lemmas: proofs/TlsHelloProofs.v) or a
   [vm_compute] witness for an Example.  The reference reading of a hello is the independent
   RFC 8446/6066/7301 encoder of model/TlsHello.v; agreement of that reading with crypto/tls is
   established differentially by the engine (harness/overlay/l4tls/c07_test.go). *)
From Coq Require Import List ZArith NArith Bool Arith String.
From Coq.Strings Require Import Byte.
From L4 Require Import Hex.
From L4.model Require Import GoBase TlsHello.
From L4.proofs Require Import TlsHelloProofs.
Import ListNotations.
Open Scope list_scope.

(* ---- the reusable codec lemma: a length-prefixed vector written by the encoder is read back ---- *)
Theorem C07_read_written_vector : forall w body rest,
  vfits w body -> cb_lp w (vec w body ++ rest) = Some (body, rest).
Proof. exact tlsh_lp_vec. Qed.

(* ---- parse (encode h) = reading of h, for every well-formed hello: vectors of any length within
   their fields, all sixteen extension kinds the matcher has a case for plus any number of other
   extensions, in any order (pre_shared_key last, as RFC 8446 4.2.11 requires) ---- *)
Theorem C07_parse_encode : forall hdr h,
  List.length hdr = 4%nat -> wf_hello h ->
  let i := parse_hello (hdr ++ encode_hello h) in
  i_server_name i = sni h /\ i_protos i = alpn h /\ i_versions i = versions h /\
  i_ciphers i = h_ciphers h /\ i_curves i = curves h /\
  i_sigschemes i = sig_schemes h /\ i_points i = point_formats h /\
  i_version i = h_legacy_version h /\ i_extensions i = map ext_type (exts_of h).
Proof. exact tlsh_parse_encode. Qed.

(* the same for every field the parser fills (key shares, PSK identities, cookie, ...) *)
Theorem C07_parse_encode_all_fields : forall hdr h,
  List.length hdr = 4%nat -> wf_hello h -> parse_hello (hdr ++ encode_hello h) = info_of_hello h.
Proof. exact tlsh_parse_encode_full. Qed.

(* hellos without supported_versions: the list is derived from legacy_version *)
Theorem C07_versions_from_legacy : forall hdr h,
  List.length hdr = 4%nat -> wf_hello h -> find_ext versions_sel (exts_of h) = None ->
  i_versions (parse_hello (hdr ++ encode_hello h)) = supported_versions_from_max (h_legacy_version h).
Proof.
  exact (fun hdr h Hl Hwf Hn =>
    eq_trans (proj1 (proj2 (proj2 (tlsh_parse_encode hdr h Hl Hwf))))
             (f_equal (fun o => match o with Some v => v | None => supported_versions_from_max (h_legacy_version h) end) Hn)).
Qed.

(* ---- the gate ---- *)
(* a record whose type is not handshake(22) is answered No as soon as its header is there, and is
   never answered Yes *)
Theorem C07_gate_non_handshake_no : forall subs t p,
  t <> x16 ->
  (r_verdict (tls_match subs (t :: p)) = No \/ r_verdict (tls_match subs (t :: p)) = More) /\
  r_server_name (tls_match subs (t :: p)) = None /\
  ((4 <= List.length p)%nat -> r_verdict (tls_match subs (t :: p)) = No).
Proof. exact tlsh_match_non_handshake. Qed.

(* every proper prefix of a handshake record is answered "need more": never Yes, never No, no
   placeholder set *)
Theorem C07_gate_incomplete_more : forall subs v frag p s,
  vfits 2 frag -> tls_record v frag = p ++ s -> s <> [] ->
  tls_match subs p = {| r_verdict := More; r_server_name := None; r_version := None |}.
Proof. exact tlsh_match_prefix. Qed.

(* a complete record (whatever follows it) is decided on the reading of its hello, and the
   placeholders are the hello's host name and legacy version.
   PARTIAL: this is the property for a ClientHello carried in ONE record (what crypto/tls clients
   write).  Missing: hellos fragmented across several records, for which today's code violates the
   property (C07_fragmented_hello_refuted below). *)
Theorem C07_match_record_partial : forall subs v h rest,
  wf_hello h -> vfits 2 (hs_header (encode_hello h) ++ encode_hello h) ->
  tls_match subs (encode_record v h ++ rest) =
  {| r_verdict := if subs (info_of_hello h) then Yes else No;
     r_server_name := Some (sni h); r_version := Some (h_legacy_version h) |}.
Proof. exact tlsh_match_record. Qed.


(* a decision, once taken, is not changed by bytes that arrive later *)
Theorem C07_decision_stable : forall subs p s,
  r_verdict (tls_match subs p) <> More -> tls_match subs (p ++ s) = tls_match subs p.
Proof. exact tlsh_match_stable. Qed.

(* model hygiene: the loops' fuel (= bytes to iterate over) is never exhausted, for any input *)
Theorem C07_fuel_adequate :
  (forall f1 exts f2 i, (List.length exts <= f1)%nat -> (List.length exts <= f2)%nat ->
     parse_exts f1 exts i = parse_exts f2 exts i) /\
  (forall f1 nl f2 i, (List.length nl <= f1)%nat -> (List.length nl <= f2)%nat ->
     sni_loop f1 nl i = sni_loop f2 nl i) /\
  (forall f1 s f2, (List.length s <= f1)%nat -> (List.length s <= f2)%nat ->
     cb_many f1 cb_u16 s = cb_many f2 cb_u16 s /\
     cb_many f1 (nonempty_lp 1) s = cb_many f2 (nonempty_lp 1) s /\
     cb_many f1 key_share_step s = cb_many f2 key_share_step s /\
     cb_many f1 psk_identity_step s = cb_many f2 psk_identity_step s).
Proof.
  exact (conj tlsh_exts_fuel (conj tlsh_sni_fuel (fun f1 s f2 H1 H2 =>
    conj (tlsh_many_fuel cb_u16 tlsh_u16_shortens f1 s f2 H1 H2)
    (conj (tlsh_many_fuel (nonempty_lp 1) tlsh_nonempty_lp_shortens f1 s f2 H1 H2)
    (conj (tlsh_many_fuel key_share_step tlsh_key_share_shortens f1 s f2 H1 H2)
          (tlsh_many_fuel psk_identity_step tlsh_psk_identity_shortens f1 s f2 H1 H2)))))).
Qed.


(* no per-connection memo: on a connection that already carried a hello (tls matcher, tls handler,
   then a tls matcher on the inner stream) the verdict is that of the bytes now in front of the
   matcher, a parsed hello overwrites the placeholders, anything else leaves them alone *)
Theorem C07_rematch_bytes_only : forall subs st p,
  fst (tls_rematch subs st p) = r_verdict (tls_match subs p) /\
  (forall n v, r_server_name (tls_match subs p) = Some n -> r_version (tls_match subs p) = Some v ->
     snd (tls_rematch subs st p) = Some (n, v)) /\
  (r_server_name (tls_match subs p) = None -> snd (tls_rematch subs st p) = st).
Proof. exact tlsh_rematch_bytes_only. Qed.

Theorem C07_rematch_after_outer_hello : forall subs subs0 st0 pA,
  let st := snd (tls_rematch subs0 st0 pA) in
  (forall t p, t <> x16 -> (4 <= List.length p)%nat -> fst (tls_rematch subs st (t :: p)) = No) /\
  (forall v h rest, wf_hello h -> vfits 2 (hs_header (encode_hello h) ++ encode_hello h) ->
     tls_rematch subs st (encode_record v h ++ rest) =
     (if subs (info_of_hello h) then Yes else No, Some (sni h, h_legacy_version h))).
Proof. exact tlsh_rematch_after. Qed.


(* the alpn sub-matcher: some configured protocol is among the client's *)
Theorem C07_alpn_match : forall cfg protos,
  alpn_match cfg protos = true <-> exists a, In a cfg /\ In a protos.
Proof. exact tlsh_alpn_match_spec. Qed.


(* ALPN routing on a complete single-record hello is decided on the hello's protocol list *)
Theorem C07_alpn_routing : forall cfg v h rest,
  wf_hello h -> vfits 2 (hs_header (encode_hello h) ++ encode_hello h) ->
  (r_verdict (tls_match (fun i => alpn_match cfg (i_protos i)) (encode_record v h ++ rest)) = Yes
   <-> exists a, In a cfg /\ In a (alpn h)) /\
  (r_verdict (tls_match (fun i => alpn_match cfg (i_protos i)) (encode_record v h ++ rest)) = No
   <-> ~ exists a, In a cfg /\ In a (alpn h)).
Proof. exact tlsh_alpn_routing. Qed.

(* the implementation's extension numbers are the IANA numbers of the encoder *)
Theorem C07_extension_numbers :
  [ext_server_name; ext_status_request; ext_supported_curves; ext_supported_points;
   ext_signature_algorithms; ext_alpn; ext_sct; ext_session_ticket; ext_pre_shared_key; ext_early_data;
   ext_supported_versions; ext_cookie; ext_psk_modes; ext_signature_algorithms_cert; ext_key_share;
   ext_renegotiation_info] = known_ext_types /\
  scsv_renegotiation = 255%N /\ status_type_ocsp = 1%N.
Proof. exact tlsh_consts_ok. Qed.

(* ---- non-vacuity ---- *)
(* the abstract value of a hello that a crypto/tls client wrote (ServerName "*.example.com",
   NextProtos h2,http/1.1, TLS 1.1-1.2): it is well-formed, its encoding is byte for byte what the
   client sent, and the parser reads SNI, ALPN and supported_versions from it *)
Definition ex_hello : hello :=
  {| h_legacy_version := 771;
     h_random := unhex "b5f537b0315190475c25d166d86edc4e52a3e3acb1f9e7aa249db18675ebe71a";
     h_session_id := unhex "7d094b769cef6811fd70ecba65e721a13b25461d3de4f793c610af451e03dcfe";
     h_ciphers := [49195; 49199; 49196; 49200; 52393; 52392; 49161; 49171; 49162; 49172; 49170]%N;
     h_compression := [x00];
     h_extensions := Some [
       EServerName [(0%N, unhex "2a2e6578616d706c652e636f6d")];
       EPointFormats [x00];
       ERenegotiationInfo [];
       EOpaque 23 [];
       ESCT;
       EStatusRequest 1 [] [];
       ESupportedGroups [29; 23; 24; 25]%N;
       ESigAlgs [2052; 1027; 2055; 2053; 2054; 1025; 1281; 1537; 1283; 1539; 513; 515]%N;
       EALPN [unhex "6832"; unhex "687474702f312e31"];
       ESupportedVersions [771; 770]%N] |}.

Definition ex_wire : list byte := unhex
  "010000d80303b5f537b0315190475c25d166d86edc4e52a3e3acb1f9e7aa249db18675ebe71a207d094b769cef6811fd70ecba65e721a13b25461d3de4f793c610af451e03dcfe0016c02bc02fc02cc030cca9cca8c009c013c00ac014c0120100007900000012001000000d2a2e6578616d706c652e636f6d000b00020100ff010001000017000000120000000500050100000000000a000a0008001d001700180019000d001a00180804040308070805080604010501060105030603020102030010000e000c02683208687474702f312e31002b00050403030302".

Ltac wf_tac :=
  repeat match goal with
  | H : false = true |- _ => discriminate H
  | |- wf_ext _ => unfold wf_ext, wf_server_name; cbn [ext_type ext_data fst snd]
  | |- wf_server_name _ => unfold wf_server_name; cbn [fst snd]
  | |- psk_only_last _ => cbn [psk_only_last is_psk]
  | |- _ /\ _ => split
  | |- Forall _ _ => constructor
  | |- NoDup _ => constructor
  | |- True => exact I
  | |- fits _ _ => vm_compute; reflexivity
  | |- vfits _ _ => vm_compute; reflexivity
  | |- _ <> [] => vm_compute; discriminate
  | |- ~ In _ _ => vm_compute; intuition discriminate
  | |- _ = _ => vm_compute; reflexivity
  | |- _ -> _ => intro
  end.

Example C07_example_wf : wf_hello ex_hello.
Proof. unfold wf_hello, ex_hello, wf_extensions. cbn [h_legacy_version h_random h_session_id h_ciphers h_compression h_extensions]. wf_tac. Qed.

Example C07_example_encoding : hs_header (encode_hello ex_hello) ++ encode_hello ex_hello = ex_wire.
Proof. vm_compute. reflexivity. Qed.

Example C07_example_parse :
  let i := parse_hello ex_wire in
  i_server_name i = unhex "2a2e6578616d706c652e636f6d" /\
  i_protos i = [unhex "6832"; unhex "687474702f312e31"] /\
  i_versions i = [771; 770]%N /\ i_curves i = [29; 23; 24; 25]%N /\
  i_extensions i = [0; 11; 65281; 23; 18; 5; 10; 13; 16; 43]%N.
Proof. vm_compute. repeat split. Qed.


(* REFUTED for hellos fragmented across records (RFC 8446 5.1 allows it, crypto/tls servers
   reassemble): the matcher reads one record and parses the first fragment as the whole hello, so
   the host name is lost.  Recorded finding C07:fragmented-hello:*; C07_match_record_partial above is the
   single-record statement. *)
Theorem C07_fragmented_hello_refuted : exists h k v,
  wf_hello h /\
  let msg := hs_header (encode_hello h) ++ encode_hello h in
  (0 < k < List.length msg)%nat /\ sni h <> [] /\
  r_server_name (tls_match (fun _ => true) (tls_record v (firstn k msg) ++ tls_record v (skipn k msg)))
    <> Some (sni h).
Proof.
  exists ex_hello, 71%nat, 769%N. split; [exact C07_example_wf|].
  vm_compute. repeat split; try discriminate; apply Nat.leb_le; reflexivity.
Qed.

(* outer hello (wildcard example.com name), then plain HTTP: No; then that hello again: its own name *)
Example C07_example_rematch :
  let st := snd (tls_rematch (fun _ => true) None (encode_record 769 ex_hello)) in
  st = Some (unhex "2a2e6578616d706c652e636f6d", 771%N) /\
  tls_rematch (fun _ => true) st (unhex "474554202f20485454502f312e310d0a") = (No, st) /\
  fst (tls_rematch (fun i => alpn_match [unhex "6833"] (i_protos i)) st (encode_record 769 ex_hello)) = No.
Proof. vm_compute. repeat split. Qed.


(* ALPN ids are opaque byte strings: a configured value that differs from the client's id only in
   letter case, by a trailing space or by a prefix does not match *)
Example C07_example_alpn_exact :
  alpn_match [unhex "6832"] [unhex "4832"] = false /\
  alpn_match [unhex "6832"; unhex "687474702f312e31"] [unhex "485454502f312e31"; unhex "73706479"] = false /\
  alpn_match [unhex "6832"] [unhex "683220"] = false /\ alpn_match [unhex "68"] [unhex "6832"] = false /\
  alpn_match [unhex "6e6f7065"; unhex "6832"] [unhex "6833"; unhex "6832"] = true.
Proof. vm_compute. repeat split. Qed.

(* a hello without supported_versions gets the list derived from legacy_version 0x0302 *)
Example C07_example_legacy :
  i_versions (parse_hello (unhex "01000029" ++ encode_hello
    {| h_legacy_version := 770; h_random := repeat x00 32; h_session_id := []; h_ciphers := [47]%N;
       h_compression := [x00]; h_extensions := None |})) = [770; 769]%N.
Proof. vm_compute. reflexivity. Qed.

(* the gate on that record: all of it -> decided; one byte short -> More; type 0x17 -> No *)
Example C07_example_gate :
  let rec := encode_record 769 ex_hello in
  r_verdict (tls_match (fun i => alpn_match [unhex "6832"] (i_protos i)) rec) = Yes /\
  r_verdict (tls_match (fun i => alpn_match [unhex "6833"] (i_protos i)) rec) = No /\
  r_verdict (tls_match (fun _ => true) (removelast rec)) = More /\
  r_verdict (tls_match (fun _ => true) (x17 :: tl rec)) = No.
Proof. vm_compute. repeat split. Qed.

(* the parser's failure mode: a trailing dot stops the parse after the name was stored, and
   the version list is then derived from legacy_version *)
Example C07_example_failure_mode :
  let i := parse_hello (unhex "01000000" ++ unhex "0303" ++ repeat x00 32 ++ unhex "00" ++ unhex "0002002f" ++ unhex "0100" ++
                        unhex "0012" ++ unhex "000000070005000002612e" ++ unhex "002b0003020304") in
  i_server_name i = unhex "612e" /\ i_extensions i = [0]%N /\ i_versions i = [771; 770; 769]%N.
Proof. vm_compute. repeat split. Qed.

Print Assumptions C07_read_written_vector.
Print Assumptions C07_parse_encode.
Print Assumptions C07_parse_encode_all_fields.
Print Assumptions C07_versions_from_legacy.
Print Assumptions C07_gate_non_handshake_no.
Print Assumptions C07_gate_incomplete_more.
Print Assumptions C07_match_record_partial.
Print Assumptions C07_decision_stable.
Print Assumptions C07_fuel_adequate.
Print Assumptions C07_rematch_bytes_only.
Print Assumptions C07_rematch_after_outer_hello.
Print Assumptions C07_example_rematch.
Print Assumptions C07_alpn_match.
Print Assumptions C07_example_alpn_exact.
Print Assumptions C07_alpn_routing.
Print Assumptions C07_fragmented_hello_refuted.
Print Assumptions C07_extension_numbers.
Print Assumptions C07_example_wf.
Print Assumptions C07_example_encoding.
Print Assumptions C07_example_parse.
Print Assumptions C07_example_legacy.
Print Assumptions C07_example_gate.
Print Assumptions C07_example_failure_mode.
