(* C03 - The proxy relays both directions byte-exactly, with half-close and cleanup.
   Property theorems only (lemmas: proofs/RelayProofs.v). *)
From Coq Require Import List Bool Arith.
From Coq.Strings Require Import Byte.
From L4.model Require Import Relay.
From L4.proofs Require Import RelayProofs.
Import ListNotations.

Theorem C03_cleanup_on_dial_failure : forall rs op cl,
  dial_peers rs 0 [] = (op, cl, false) -> ~ In DialOkHeaderErr rs -> cl = op.
Proof. intros rs op cl. exact (dial_peers_cleanup rs 0 [] op cl). Qed.

Print Assumptions C03_cleanup_on_dial_failure.
