(* C03 - The proxy relays both directions byte-exactly, with half-close and cleanup.
   Property theorems only (lemmas: proofs/RelayProofs.v, RelayFinalProofs.v, RelayTermProofs.v).

   The model (model/Relay.v) is a small-step system: Pump, Copy_i, Main and the client/upstream
   applications; an execution is a list of labels (schedule and chunk sizes are oracles).
   [reachable] allows abrupt closes (CAbort / UAbort), [reachable_ff] does not. *)
From Coq Require Import List Bool Arith Lia.
From Coq.Strings Require Import Byte.
From L4.gen Require Import Shape.
From L4.model Require Import Relay.
From L4.proofs Require Import RelayProofs RelayFinalProofs RelayTermProofs.
Import ListNotations.

(* in every reachable state (abrupt closes included) each upstream's log is a prefix of the client's
   stream and the client's log restricted to upstream i is a prefix of what i sent: no loss,
   duplication or reordering *)
Theorem C03_relay_safety : forall c s, reachable c s ->
  forall i, i < n_up c ->
    prefix (u_log (ups s i)) (c_total c) /\ prefix (proj i (c_log (cl s))) (u_total c i).
Proof. exact relay_safety. Qed.

(* a fault-free execution that cannot be continued has reached the final state: every upstream's
   log = the client's stream, the client's log is an order-preserving interleaving of what the
   upstreams sent, both EOFs observed, Handle returned, every upstream socket closed *)
Theorem C03_relay_final : forall c s,
  compatible c -> reachable_ff c s -> terminal c s -> final c s.
Proof. exact relay_final. Qed.

(* one peer: the client's log is exactly what the upstream sent *)
Theorem C03_relay_final_one_peer : forall c s,
  n_up c = 1 -> final c s -> map snd (c_log (cl s)) = u_total c 0.
Proof. exact final_one_peer. Qed.

(* ... which is what the harness observes *)
Theorem C03_final_observed : forall c s, final c s -> observe c s = final_obs c.
Proof. exact final_observe. Qed.

(* every step decreases a measure: no execution (faults included) is longer than the measure of its
   first state, so every execution can be extended to a maximal one *)
Theorem C03_relay_terminates : forall c ls s s', exec c s ls = Some s' -> length ls + measure c s' <= measure c s.
Proof. exact exec_bounded. Qed.

(* no deadlock: a state reached without faults is final or can take a non-fault step; hence every
   maximal fault-free execution ends in the final state, for every chunking and schedule *)
Theorem C03_relay_progress : forall c s,
  compatible c -> reachable_ff c s -> final c s \/ exists l s', is_fault l = false /\ step c s l = Some s'.
Proof. exact progress_or_final. Qed.
Theorem C03_relay_completes : forall c s,
  compatible c -> reachable_ff c s -> exists ls s', fault_free ls /\ exec c s ls = Some s' /\ final c s'.
Proof. intros c s Hc Hr. exact (relay_completes c Hc (measure c s) s Hr (le_n _)). Qed.

(* half-close is independent per direction: whichever side finishes first, the other direction
   keeps flowing until it finishes too.  (a) the client finishes first, upstreams only after EOF *)
Theorem C03_half_close_independent_client_first : forall c s,
  cfin c = FinFree -> (forall i, i < n_up c -> up_cw c i = true) ->
  reachable_ff c s -> terminal c s -> final c s.
Proof. exact half_close_to_upstreams. Qed.
(* (b) the upstreams finish first, the client only after it has seen EOF: for every chain whose
   transport offers half-close and whose wrappers are the ones the shipped handlers build *)
Theorem C03_half_close_independent_upstream_first : forall c s,
  ~ In LHiding (down c) -> transport_offers (down c) = true ->
  (forall i, i < n_up c -> ufin c i = FinFree /\ up_cw c i = true) ->
  reachable_ff c s -> terminal c s -> final c s.
Proof. exact half_close_to_client. Qed.

(* the method sets: behind every wrapper the shipped handlers build - layer4.Connection, throttledConn, tee's
   nextConn, proxy_protocol's proxyConn around the third-party conn - CloseWrite on down.Conn reaches the
   transport exactly when the transport offers it.  Rests on gen/Shape.v: each of these types declares
   CloseWrite; it stops checking when one of the methods disappears from the source. *)
Theorem C03_half_close_offered : forall ch, ~ In LHiding ch -> cw_effect ch = transport_offers ch.
Proof. exact cw_effect_repo. Qed.
Example C03_shipped_chains :
  cw_effect chain_direct = true /\ cw_effect chain_throttle = true /\ cw_effect chain_tee = true /\
  cw_effect chain_proxy_protocol = true /\
  cw_effect chain_tls = true /\ cw_effect chain_udp = false /\ transport_offers chain_udp = false.
Proof. vm_compute. repeat split. Qed.

(* why the methods matter (what was wrong before commits 4d2bee9, 6a24666, 96c36fc): behind a wrapper that
   embeds net.Conn and declares no CloseWrite ([LHiding], e.g. a bare third-party *proxyprotocol.Conn) the
   transport offers half-close, the upstream has finished and everything has been delivered, yet nobody
   sees EOF and Handle waits.  No shipped handler builds such a chain any more. *)
Theorem C03_half_close_lost_behind_hiding_wrapper : exists c s,
  transport_offers (down c) = true /\ cfin c = FinAfterEof /\ (forall i, i < n_up c -> ufin c i = FinFree /\ up_cw c i = true) /\
  reachable_ff c s /\ terminal c s /\ lossy (px s) = false /\
  u_finned (ups s 0) = true /\ proj 0 (c_log (cl s)) = u_total c 0 /\ u_log (ups s 0) = c_total c /\
  c_eof (cl s) = false /\ u_eof (ups s 0) = false /\ mainp (px s) = MRecv /\ ~ final c s.
Proof. exact half_close_lost_witness. Qed.

(* dialPeers closes every connection it opened when a later peer cannot be dialled *)
Theorem C03_cleanup_on_dial_failure : forall rs op cl,
  dial_peers rs 0 [] = (op, cl, false) -> ~ In DialOkHeaderErr rs -> cl = op.
Proof. intros rs op cl. exact (dial_peers_cleanup rs 0 [] op cl). Qed.
Theorem C03_dial_success_closes_nothing : forall rs op cl,
  dial_peers rs 0 [] = (op, cl, true) -> cl = [] /\ length op = length rs.
Proof. intros rs op cl. exact (dial_peers_ok_none_closed rs 0 [] op cl). Qed.

(* ---- non-vacuity: a concrete two-peer scenario behind tee, client waiting for EOF ---- *)
Example C03_nonvacuous :
  let c := ex_cfg chain_tee FinAfterEof FinFree in
  compatible c /\ reachable_ff c (ex_state c) /\ terminal c (ex_state c) /\ final c (ex_state c) /\
  observe c (ex_state c) = final_obs c.
Proof. exact ex_nonvacuous. Qed.

Print Assumptions C03_relay_safety.
Print Assumptions C03_relay_final.
Print Assumptions C03_relay_final_one_peer.
Print Assumptions C03_final_observed.
Print Assumptions C03_relay_terminates.
Print Assumptions C03_relay_progress.
Print Assumptions C03_relay_completes.
Print Assumptions C03_half_close_independent_client_first.
Print Assumptions C03_half_close_independent_upstream_first.
Print Assumptions C03_half_close_offered.
Print Assumptions C03_half_close_lost_behind_hiding_wrapper.
Print Assumptions C03_cleanup_on_dial_failure.
Print Assumptions C03_dial_success_closes_nothing.
Print Assumptions C03_nonvacuous.
