(* C04 (small matchers) - stub used while confirming the defects on the unrepaired tree *)
From Coq Require Import String.
From Coq Require Import List NArith ZArith Bool.
From Coq.Strings Require Import Byte.
From L4 Require Import Hex.
From L4.model Require Import GoBase MatchSmall.
Import ListNotations.

Theorem C04_postgres_v0_no_panic_refuted : exists p, fst (pg_run_v0 p) = Panic.
Proof. exists (unhex "00000004"). vm_compute. reflexivity. Qed.
Theorem C04_postgres_v0_alloc_refuted : exists p, (alloc_bound < snd (pg_run_v0 p))%N.
Proof. exists (unhex "00000003"). vm_compute. reflexivity. Qed.
Print Assumptions C04_postgres_v0_no_panic_refuted.
Print Assumptions C04_postgres_v0_alloc_refuted.
