(* C04 - No remote input makes a matcher panic or allocate without bound: the small matchers
   (ssh, xmpp, postgres, proxy_protocol, socks4, socks5, regexp gate, tls record gate, http
   request-line gate, clock, remote_ip/local_ip, not).  For every configuration and every byte
   string the model's verdict is not Panic and what it asks make() for is at most
   16 * layer4.MaxMatchingBytes.  Property theorems only (lemmas: proofs/MatchSmallProofs.v). *)
From Coq Require Import String.
From Coq Require Import List NArith ZArith Bool.
From Coq.Strings Require Import Byte.
From L4 Require Import Hex.
From L4.gen Require Import Consts.
From L4.model Require Import GoBase MatchSmall.
From L4.proofs Require Import MatchSmallLemmas MatchSmallProofs.
Import ListNotations.

(* the bound is the generated constant *)
Theorem C04_bound_is_16_max : alloc_bound = (16 * Z.to_N layer4_MaxMatchingBytes)%N.
Proof. exact eq_refl. Qed.

Theorem C04_ssh_no_panic : never_panics ssh_match.
Proof. exact ssh_no_panic. Qed.
Theorem C04_ssh_alloc : forall p, (snd (ssh_run p) <= alloc_bound)%N.
Proof. exact ssh_alloc. Qed.

Theorem C04_xmpp_no_panic : never_panics xmpp_match.
Proof. exact xmpp_no_panic. Qed.
Theorem C04_xmpp_alloc : forall p, (snd (xmpp_run p) <= alloc_bound)%N.
Proof. exact xmpp_alloc. Qed.

(* postgres: holds because the source has the three bounds checks (generated facts) *)
Theorem C04_postgres_no_panic : never_panics pg_match.
Proof. exact pg_no_panic. Qed.
Theorem C04_postgres_alloc : forall p, (snd (pg_run p) <= alloc_bound)%N.
Proof. exact pg_alloc. Qed.
(* the tree before commits 4d39c67 / 4ad343d: same transcription without the checks *)
Theorem C04_postgres_v0_no_panic_refuted :
  fst (pg_run_v0 (unhex "00000004")) = Panic /\ fst (pg_run_v0 (unhex "0000000c0003000075736572")) = Panic.
Proof. exact (conj pg_v0_panics_short pg_v0_panics_unterminated). Qed.
Theorem C04_postgres_v0_alloc_refuted : (alloc_bound < snd (pg_run_v0 (unhex "00000003")))%N.
Proof. exact pg_v0_alloc_underflow. Qed.
(* rejecting only length < 4 would not have been enough *)
Theorem C04_postgres_length_floor_only_alloc_refuted :
  (alloc_bound < snd (pg_run_gen false true true (unhex "ffffffff")))%N.
Proof. exact pg_len_only_alloc. Qed.

Theorem C04_proxy_protocol_no_panic : never_panics pp_match.
Proof. exact pp_no_panic. Qed.
Theorem C04_proxy_protocol_alloc : forall p, (snd (pp_run p) <= alloc_bound)%N.
Proof. exact pp_alloc. Qed.

Theorem C04_socks4_no_panic : forall cfg, never_panics (socks4_match cfg).
Proof. exact socks4_no_panic. Qed.
Theorem C04_socks4_alloc : forall cfg p, (snd (socks4_run cfg p) <= alloc_bound)%N.
Proof. exact socks4_alloc. Qed.

Theorem C04_socks5_no_panic : forall auth, never_panics (socks5_match auth).
Proof. exact (fun auth => socks5_gen_no_panic s5_chk_zero auth). Qed.
Theorem C04_socks5_alloc : forall auth p, (snd (socks5_run auth p) <= alloc_bound)%N.
Proof. exact (fun auth => socks5_gen_alloc s5_chk_zero auth). Qed.

(* regexp: for every regex engine that is a total function; Count is a uint16 *)
Theorem C04_regexp_no_panic : forall re count, never_panics (regexp_match re count).
Proof. exact regexp_no_panic. Qed.
Theorem C04_regexp_alloc : forall re count p, (count < 65536)%N -> (snd (regexp_run re count p) <= alloc_bound)%N.
Proof. exact regexp_alloc. Qed.

(* tls record gate: for every total inner ClientHello predicate *)
Theorem C04_tls_gate_no_panic : forall inner, never_panics (tls_match inner).
Proof. exact tls_no_panic. Qed.
Theorem C04_tls_gate_alloc : forall inner p, (snd (tls_run inner p) <= alloc_bound)%N.
Proof. exact tls_alloc. Qed.

Theorem C04_http_gate_no_panic : never_panics http_gate.
Proof. exact http_gate_no_panic. Qed.

Theorem C04_clock_no_panic : forall ab now, clock_match ab now <> Panic.
Proof. exact clock_no_panic. Qed.
Theorem C04_ip_no_panic : forall cidrs a, ip_match cidrs a <> Panic.
Proof. exact ip_no_panic. Qed.
Theorem C04_not_no_panic : forall sets p,
  Forall (fun ms => Forall (fun m : matcher => m p <> Panic) ms) sets -> not_match sets p <> Panic.
Proof. exact not_no_panic. Qed.

(* non-vacuity: the models do reach every verdict, and the allocation depends on the input *)
Example C04_nonvacuous :
  pg_match (unhex "0000000804d2162f") = Yes /\ pg_match (unhex "00000004") = No /\
  pg_match (unhex "0000000c0003000075736572") = No /\ pg_match (unhex "0000000800020000") = Fail /\
  pg_match (unhex "00000010") = More /\ snd (pg_run (unhex "00000010")) = 16%N /\
  snd (tls_run (fun _ => true) (unhex "160301ffff")) = 65540%N /\
  socks5_match [0%N] (unhex "050100") = Yes /\ http_gate (unhex "474554202f20485454502f312e310d0a") = Yes.
Proof. vm_compute. repeat split; reflexivity. Qed.

Print Assumptions C04_ssh_no_panic.
Print Assumptions C04_ssh_alloc.
Print Assumptions C04_xmpp_no_panic.
Print Assumptions C04_xmpp_alloc.
Print Assumptions C04_postgres_no_panic.
Print Assumptions C04_postgres_alloc.
Print Assumptions C04_postgres_v0_no_panic_refuted.
Print Assumptions C04_postgres_v0_alloc_refuted.
Print Assumptions C04_proxy_protocol_no_panic.
Print Assumptions C04_proxy_protocol_alloc.
Print Assumptions C04_socks4_no_panic.
Print Assumptions C04_socks4_alloc.
Print Assumptions C04_socks5_no_panic.
Print Assumptions C04_socks5_alloc.
Print Assumptions C04_regexp_no_panic.
Print Assumptions C04_regexp_alloc.
Print Assumptions C04_tls_gate_no_panic.
Print Assumptions C04_tls_gate_alloc.
Print Assumptions C04_http_gate_no_panic.
Print Assumptions C04_not_no_panic.
