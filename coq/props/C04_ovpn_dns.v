(* C04 (OpenVPN, DNS, QUIC gate) - no input makes the matcher panic; allocation is bounded by a small
   multiple of the matching buffer limit.  Property theorems only (lemmas: proofs/MatchOpenVpnProofs.v,
   proofs/MatchDnsProofs.v, proofs/CodecOpenVpnProofs.v).  HMAC, AES-CTR, dns.Msg.Unpack and the regexp
   engine are universally quantified functions (they cannot panic by typing; the differential run probes that). *)
From Coq Require Import List NArith ZArith Bool Arith.
From Coq.Strings Require Import Byte.
From L4.gen Require Import Consts.
From L4.model Require Import GoBase CodecOpenVpn MatchOpenVpn MatchDns.
From L4.proofs Require Import CodecOpenVpnProofs MatchOpenVpnProofs MatchDnsProofs.
Import ListNotations.

(* OpenVPN matcher, TCP and UDP form, every provisioned configuration (key lengths as Provision enforces),
   every value of the mutable lastDigest that Match can have stored *)
Theorem C04_openvpn_never_panics : forall hmac aes now c ld tcp, cfg_wf c -> ld_ok ld ->
  never_panics (fun p => fst (ovpn_match hmac aes now c ld tcp p)).
Proof. exact ovpn_never_panics. Qed.
Theorem C04_openvpn_never_errors : forall hmac aes now c ld tcp p, cfg_wf c -> ld_ok ld ->
  fst (ovpn_match hmac aes now c ld tcp p) <> Fail.
Proof. exact ovpn_never_fails. Qed.
Theorem C04_openvpn_alloc_bounded : forall tcp p, (Z.of_N (ovpn_alloc tcp p) <= 16 * layer4_MaxMatchingBytes)%Z.
Proof. exact ovpn_alloc_bound. Qed.

(* the exported parsers on arbitrary bytes *)
Theorem C04_openvpn_header_parser_never_panics : forall b, header_from_bytes b <> RPanic.
Proof. exact header_no_panic. Qed.
Theorem C04_openvpn_plain_parser_never_panics : forall b, plain_from_bytes b <> RPanic.
Proof. exact plain_no_panic. Qed.
Theorem C04_openvpn_auth_parser_never_panics : forall b, auth_from_bytes b <> RPanic.
Proof. exact auth_no_panic. Qed.
Theorem C04_openvpn_crypt_parser_never_panics : forall b, crypt_from_bytes b <> RPanic.
Proof. exact crypt_no_panic. Qed.
Theorem C04_openvpn_wkey_parser_never_panics : forall b, wkey_from_bytes b <> RPanic.
Proof. exact wkey_no_panic. Qed.
Theorem C04_openvpn_crypt2_parser_never_panics : forall b, crypt2_from_bytes b <> RPanic.
Proof. exact crypt2_no_panic. Qed.
(* key-quarter selection on keys of the provisioned lengths *)
Theorem C04_openvpn_key_selectors_never_panic : forall sk size, length (k_bytes sk) = 256%nat \/ length (k_bytes sk) = 128%nat ->
  client_auth_key sk size <> None /\ server_auth_key sk size <> None /\ client_decrypt_key sk size <> None /\
  server_decrypt_key sk size <> None.
Proof. exact selectors_ok. Qed.

(* DNS matcher *)
Theorem C04_dns_never_panics : forall unpack re c tcp, never_panics (dns_match unpack re c tcp).
Proof. exact dns_never_panics. Qed.
Theorem C04_dns_never_errors : forall unpack re c tcp p, dns_match unpack re c tcp p <> Fail.
Proof. exact dns_never_fails. Qed.
Theorem C04_dns_alloc_bounded : forall tcp p, (Z.of_nat (length p) <= layer4_MaxMatchingBytes)%Z ->
  (Z.of_N (dns_alloc tcp p) <= 16 * layer4_MaxMatchingBytes)%Z.
Proof. exact dns_alloc_bound. Qed.

(* QUIC gate: what is handed to quic-go is a long-header packet of 1200..1452 bytes taken from the datagram; the
   gate itself has no panicking operation (its result type has no such outcome) *)
Theorem C04_quic_gate_pass : forall udp p pkt, quic_gate udp p = GPass pkt ->
  udp = true /\ (quic_min <= length pkt <= quic_max)%nat /\ pkt = firstn (length pkt) p /\
  exists b, nth_error p 0 = Some b /\ N.land (bN b) 192 = 192%N.
Proof. exact quic_gate_pass. Qed.
Theorem C04_quic_gate_alloc_bounded : (Z.of_N quic_alloc <= 16 * layer4_MaxMatchingBytes)%Z.
Proof. exact quic_alloc_bound. Qed.

(* non-vacuity: a provisioned configuration exists and the matcher answers something other than Panic on it *)
Definition ex_key (n : nat) : skey := {| k_bidi := false; k_inverse := false; k_bytes := repeat x11 n |}.
Definition ex_cfg : cfg :=
  {| acc_plain := true; acc_auth := true; acc_crypt := true; acc_crypt2 := true; ign_crypto := false; ign_ts := true;
     gk_auth := Some (ex_key 256); gk_crypt := Some (ex_key 256); auth_digest := None; client_keys := []; server_key := Some (ex_key 128) |}.
Example C04_ovpn_dns_nonvacuous :
  cfg_wf ex_cfg /\ ld_ok (Some 17%nat) /\
  fst (ovpn_match (fun _ _ _ => []) (fun _ _ e => e) 0 ex_cfg None false (x38 :: repeat x01 8 ++ repeat x00 5)) = Yes /\
  fst (ovpn_match (fun _ _ _ => []) (fun _ _ e => e) 0 ex_cfg None true [x00; x0e; x38; x01]) = More.
Proof.
  split; [|split; [vm_compute; auto|vm_compute; split; reflexivity]].
  unfold cfg_wf, ex_cfg, ex_key, key_len_ok. cbn [gk_auth gk_crypt server_key client_keys auth_digest k_bytes].
  rewrite !repeat_length. repeat split; auto.
Qed.

Print Assumptions C04_openvpn_never_panics.
Print Assumptions C04_openvpn_never_errors.
Print Assumptions C04_openvpn_alloc_bounded.
Print Assumptions C04_openvpn_header_parser_never_panics.
Print Assumptions C04_openvpn_plain_parser_never_panics.
Print Assumptions C04_openvpn_auth_parser_never_panics.
Print Assumptions C04_openvpn_crypt_parser_never_panics.
Print Assumptions C04_openvpn_wkey_parser_never_panics.
Print Assumptions C04_openvpn_crypt2_parser_never_panics.
Print Assumptions C04_openvpn_key_selectors_never_panic.
Print Assumptions C04_dns_never_panics.
Print Assumptions C04_dns_never_errors.
Print Assumptions C04_dns_alloc_bounded.
Print Assumptions C04_quic_gate_pass.
Print Assumptions C04_quic_gate_alloc_bounded.
Print Assumptions C04_ovpn_dns_nonvacuous.
