(* C18 - Wire-message codecs (WireGuard, Winbox, RDP) are exact inverses; wrong lengths are rejected.
   Property theorems only; every proof is [exact <lemma>] (lemmas: proofs/Codec*Proofs.v). *)
From Coq Require Import List ZArith NArith Bool.
From Coq.Strings Require Import Byte.
From L4.gen Require Import Consts.
From L4.model Require Import GoBase CodecBase CodecWireGuard CodecWinbox CodecRdp.
From L4.proofs Require Import CodecWireGuardProofs CodecRdpCodecProofs CodecWinboxProofs CodecWinboxCodecProofs.
Import ListNotations.
Local Open Scope nat_scope.

(* ---- WireGuard MessageInitiation: exactly MessageInitiationBytesTotal bytes ---- *)
Theorem C18_wg_initiation_to_from : forall b x, init_from_bytes b = Ok x -> init_to_bytes x = b.
Proof. exact init_to_from. Qed.
Theorem C18_wg_initiation_from_to : forall x, init_wf x -> init_from_bytes (init_to_bytes x) = Ok x.
Proof. exact init_from_to. Qed.
Theorem C18_wg_initiation_rejects_wrong_length : forall b, length b <> wg_init_total -> init_from_bytes b = Err.
Proof. exact init_rejects_wrong_length. Qed.

(* ---- WireGuard MessageTransport: header + any content ---- *)
Theorem C18_wg_transport_to_from : forall b x, transport_from_bytes b = Ok x -> transport_to_bytes x = b.
Proof. exact transport_to_from. Qed.
Theorem C18_wg_transport_from_to : forall x, transport_wf x -> transport_from_bytes (transport_to_bytes x) = Ok x.
Proof. exact transport_from_to. Qed.
Theorem C18_wg_transport_rejects_wrong_length : forall b, length b < wg_transport_hdr -> transport_from_bytes b = Err.
Proof. exact transport_rejects_wrong_length. Qed.

(* ---- Winbox MessageAuth (FromBytes = FromChunks after chunking, ToBytes = ToChunks + framing) ---- *)
Theorem C18_winbox_auth_to_from : forall b x, auth_from_bytes b = Ok x -> auth_to_bytes x = b.
Proof. exact auth_to_from. Qed.
Theorem C18_winbox_auth_from_to : forall x, auth_wf x -> auth_from_bytes (auth_to_bytes x) = Ok x.
Proof. exact auth_from_to. Qed.
(* the length is carried by the chunk headers: the only length accepted for a message is that of its encoding,
   anything shorter than the minimum is rejected, an accepted message followed by more bytes is not that message *)
Theorem C18_winbox_auth_rejects_wrong_length : forall b x, length b <> length (auth_to_bytes x) -> auth_from_bytes b <> Ok x.
Proof. exact auth_rejects_wrong_length. Qed.
Theorem C18_winbox_auth_rejects_short : forall b, length b < wb_auth_min -> auth_from_bytes b = Err.
Proof. exact auth_rejects_short. Qed.
Theorem C18_winbox_auth_rejects_extension : forall b x t, auth_from_bytes b = Ok x -> t <> [] -> auth_from_bytes (b ++ t) <> Ok x.
Proof. exact auth_rejects_extension. Qed.
Theorem C18_winbox_auth_accepted_is_wf : forall b x, auth_from_bytes b = Ok x -> auth_wf x.
Proof. exact auth_from_bytes_wf. Qed.
(* the chunk level: what FromBytes hands to FromChunks re-serialises to the input, and ToChunks output parses back *)
Theorem C18_winbox_chunks_to_from : forall fuel first rest cs, rest <> [] -> length rest <= fuel ->
  chunks_from fuel first rest = Ok cs -> good first cs /\ chunks_to_bytes cs = rest.
Proof. exact chunks_from_good. Qed.
Theorem C18_winbox_chunks_from_to : forall fuel first cs, good first cs -> length (chunks_to_bytes cs) <= fuel ->
  chunks_from fuel first (chunks_to_bytes cs) = Ok cs.
Proof. exact chunks_from_to_bytes. Qed.

(* ---- RDP ---- *)
Theorem C18_rdp_tpkt_to_from : forall b x, tpkt_from_bytes b = Ok x -> tpkt_to_bytes x = b.
Proof. exact tpkt_to_from. Qed.
Theorem C18_rdp_tpkt_from_to : forall x, tpkt_wf x -> tpkt_from_bytes (tpkt_to_bytes x) = Ok x.
Proof. exact tpkt_from_to. Qed.
Theorem C18_rdp_tpkt_rejects_wrong_length : forall b, length b <> tpkt_total -> tpkt_from_bytes b = Err.
Proof. exact tpkt_rejects_wrong_length. Qed.

Theorem C18_rdp_x224_to_from : forall b x, x224_from_bytes b = Ok x -> x224_to_bytes x = b.
Proof. exact x224_to_from. Qed.
Theorem C18_rdp_x224_from_to : forall x, x224_wf x -> x224_from_bytes (x224_to_bytes x) = Ok x.
Proof. exact x224_from_to. Qed.
Theorem C18_rdp_x224_rejects_wrong_length : forall b, length b <> x224_total -> x224_from_bytes b = Err.
Proof. exact x224_rejects_wrong_length. Qed.

Theorem C18_rdp_negreq_to_from : forall b x, negreq_from_bytes b = Ok x -> negreq_to_bytes x = b.
Proof. exact negreq_to_from. Qed.
Theorem C18_rdp_negreq_from_to : forall x, negreq_wf x -> negreq_from_bytes (negreq_to_bytes x) = Ok x.
Proof. exact negreq_from_to. Qed.
Theorem C18_rdp_negreq_rejects_wrong_length : forall b, length b <> negreq_total -> negreq_from_bytes b = Err.
Proof. exact negreq_rejects_wrong_length. Qed.

Theorem C18_rdp_corrinfo_to_from : forall b x, corr_from_bytes b = Ok x -> corr_to_bytes x = b.
Proof. exact corr_to_from. Qed.
Theorem C18_rdp_corrinfo_from_to : forall x, corr_wf x -> corr_from_bytes (corr_to_bytes x) = Ok x.
Proof. exact corr_from_to. Qed.
Theorem C18_rdp_corrinfo_rejects_wrong_length : forall b, length b <> corr_total -> corr_from_bytes b = Err.
Proof. exact corr_rejects_wrong_length. Qed.

Theorem C18_rdp_token_to_from : forall b x, token_from_bytes b = Ok x -> token_to_bytes x = b.
Proof. exact token_to_from. Qed.
Theorem C18_rdp_token_from_to : forall x, token_wf x -> token_from_bytes (token_to_bytes x) = Ok x.
Proof. exact token_from_to. Qed.
Theorem C18_rdp_token_rejects_wrong_length : forall b, length b < token_min -> token_from_bytes b = Err.
Proof. exact token_rejects_wrong_length. Qed.

(* the constants the sizes are taken from are the ones the struct layouts add up to *)
Theorem C18_consts_ok :
  (4 + 4 + wg_eph_sz + wg_static_sz + wg_ts_sz + wg_mac_sz + wg_mac_sz = wg_init_total /\ wg_transport_hdr <= wg_transport_min /\ wg_transport_min < wg_init_total) /\
  (tpkt_total = 4 /\ x224_total = 7 /\ negreq_total = 8 /\ corr_total = 36 /\ token_min = 11 /\ connreq_min = 11).
Proof. exact (conj wg_consts_ok rdp_consts_ok). Qed.

(* ---- non-vacuity ---- *)
Example C18_wg_nonvacuous :
  let m := {| mi_type := 1; mi_sender := 4294967295; mi_eph := repeat x01 32; mi_static := repeat x02 48; mi_ts := repeat x03 28;
              mi_mac1 := repeat x04 16; mi_mac2 := repeat x05 16 |} in
  init_wf m /\ init_from_bytes (init_to_bytes m) = Ok m /\ init_from_bytes (init_to_bytes m ++ [x00]) = Err /\
  exists t, transport_from_bytes (repeat x07 33) = Ok t /\ length (mt_content t) = 17.
Proof. cbv zeta. split; [vm_compute; repeat split|]. split; [vm_compute; reflexivity|]. split; [vm_compute; reflexivity|].
  eexists. split; vm_compute; reflexivity. Qed.
Example C18_winbox_nonvacuous :
  let one := {| ma_parity := x01; ma_key := repeat x07 32; ma_user := repeat x61 221 |} in      (* payload 255: one full chunk, 257 bytes *)
  let two := {| ma_parity := x00; ma_key := repeat x07 32; ma_user := repeat x61 230 ++ [x2b; x72] |} in   (* two chunks, +r *)
  auth_wf one /\ auth_wf two /\ length (auth_to_bytes one) = 257 /\ length (auth_to_bytes two) = 270 /\
  auth_from_bytes (auth_to_bytes one) = Ok one /\ auth_from_bytes (auth_to_bytes two) = Ok two /\
  auth_from_bytes (auth_to_bytes two ++ [x00]) = Err /\ auth_from_bytes (auth_to_bytes one ++ [x01; xff; x00]) = Err.
Proof. cbv zeta. split; [vm_compute; repeat split; discriminate|]. split; [vm_compute; repeat split; discriminate|]. vm_compute. repeat split. Qed.
Example C18_rdp_nonvacuous :
  tpkt_from_bytes [x03; x00; x00; x13] = Ok {| tp_version := 3; tp_reserved := 0; tp_length := 19 |} /\
  tpkt_from_bytes [x03; x00; x00; x13; x00] = Err /\ tpkt_from_bytes [x03; x00; x00] = Err /\
  (exists t, token_from_bytes (repeat x03 13) = Ok t /\ tk_optional t = [x03; x03]).
Proof. split; [vm_compute; reflexivity|]. split; [vm_compute; reflexivity|]. split; [vm_compute; reflexivity|].
  eexists. split; vm_compute; reflexivity. Qed.

Print Assumptions C18_wg_initiation_to_from.
Print Assumptions C18_wg_initiation_from_to.
Print Assumptions C18_wg_initiation_rejects_wrong_length.
Print Assumptions C18_wg_transport_to_from.
Print Assumptions C18_wg_transport_from_to.
Print Assumptions C18_wg_transport_rejects_wrong_length.
Print Assumptions C18_winbox_auth_to_from.
Print Assumptions C18_winbox_auth_from_to.
Print Assumptions C18_winbox_auth_rejects_wrong_length.
Print Assumptions C18_winbox_auth_rejects_short.
Print Assumptions C18_winbox_auth_rejects_extension.
Print Assumptions C18_winbox_auth_accepted_is_wf.
Print Assumptions C18_winbox_chunks_to_from.
Print Assumptions C18_winbox_chunks_from_to.
Print Assumptions C18_winbox_nonvacuous.
Print Assumptions C18_rdp_tpkt_to_from.
Print Assumptions C18_rdp_tpkt_from_to.
Print Assumptions C18_rdp_tpkt_rejects_wrong_length.
Print Assumptions C18_rdp_x224_to_from.
Print Assumptions C18_rdp_x224_from_to.
Print Assumptions C18_rdp_x224_rejects_wrong_length.
Print Assumptions C18_rdp_negreq_to_from.
Print Assumptions C18_rdp_negreq_from_to.
Print Assumptions C18_rdp_negreq_rejects_wrong_length.
Print Assumptions C18_rdp_corrinfo_to_from.
Print Assumptions C18_rdp_corrinfo_from_to.
Print Assumptions C18_rdp_corrinfo_rejects_wrong_length.
Print Assumptions C18_rdp_token_to_from.
Print Assumptions C18_rdp_token_from_to.
Print Assumptions C18_rdp_token_rejects_wrong_length.
Print Assumptions C18_consts_ok.
Print Assumptions C18_wg_nonvacuous.
Print Assumptions C18_rdp_nonvacuous.
