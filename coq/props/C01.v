(* C01 - Match-and-rewind: handlers read the client's stream exactly once, in order.
   Property theorems only; every proof is [exact <lemma>] (lemmas: proofs/ConnProofs.v,
   proofs/LayersProofs.v) or a vm_compute witness for Examples / _refuted statements. *)
From Coq Require Import List ZArith NArith Bool Arith.
From Coq.Strings Require Import Byte.
From L4.gen Require Import Consts.
From L4.model Require Import Conn Layers.
From L4.proofs Require Import ConnProofs LayersProofs.
Import ListNotations.
Local Open Scope nat_scope.

(* the constants of connection.go (regenerated from the source) allow the buffer discipline *)
Theorem C01_consts_ok : (1 <= layer4_prefetchChunkSize <= layer4_MaxMatchingBytes)%Z.
Proof. exact consts_ok. Qed.

(* ---- Connection.Read and every wrapper's Read, outside matching ---- *)
Theorem C01_read_stream : forall r n orc d e r' o',
  notm r -> wfr r -> read r n orc = ((d, e), r', o') ->
  stream_of r = d ++ stream_of r' /\ notm r' /\ wfr r' /\ (e = EEOF -> stream_of r = []).
Proof. exact read_stream. Qed.

Theorem C01_read_data_xor_error : forall r n orc d e r' o',
  read r n orc = ((d, e), r', o') -> length d <= n /\ (e <> ENil -> d = []).
Proof. exact read_basic. Qed.

(* any sequence of reads (any buffer sizes, any segmentation) yields a prefix of the stream ... *)
Theorem C01_reads_prefix : forall ns r orc ds e r' o',
  notm r -> wfr r -> reads r ns orc = (ds, e, r', o') ->
  stream_of r = ds ++ stream_of r' /\ notm r' /\ wfr r' /\ (e = EEOF -> stream_of r' = []).
Proof. exact reads_stream. Qed.
(* ... and the whole stream when read to EOF *)
Theorem C01_reads_to_eof : forall r ns orc ds r' o',
  notm r -> wfr r -> reads r ns orc = (ds, EEOF, r', o') -> ds = stream_of r.
Proof. exact reads_to_eof. Qed.

(* ---- prefetch (both branches) ---- *)
Theorem C01_prefetch_preserves_stream : forall c i newcap orc e r' o',
  notm i -> wfr i -> offset c <= length (buf c) ->
  prefetch (L4 c i) newcap orc = (e, r', o') ->
  stream_of r' = stream_of (L4 c i) /\ wfr r' /\ (matching c = false -> notm r').
Proof. exact prefetch_preserves_stream. Qed.

Theorem C01_prefetch_buffer_bound : forall c i newcap orc e c' i' o',
  notm i -> wfr i ->
  prefetch (L4 c i) newcap orc = (e, L4 c' i', o') ->
  (Z.of_nat (length (buf c')) <=
   Z.max (Z.of_nat (length (buf c))) (layer4_MaxMatchingBytes - 1 + layer4_prefetchChunkSize))%Z.
Proof. exact prefetch_buffer_bound. Qed.

Theorem C01_prefetch_appends_one_chunk : forall c i newcap orc e r' o',
  notm i -> wfr i ->
  prefetch (L4 c i) newcap orc = (e, r', o') ->
  exists c' i' d, r' = L4 c' i' /\ buf c' = buf c ++ d /\ length d <= CHUNKn /\
    offset c' = offset c /\ frozen c' = frozen c /\ matching c' = matching c /\
    stream_of i = d ++ stream_of i' /\ notm i' /\ wfr i' /\
    (MAXn <= length (buf c) -> d = [] /\ e = EFull /\ i' = i /\ o' = orc) /\
    (length (buf c) < MAXn -> e <> EFull) /\
    (length (buf c) <= bcap c -> length (buf c') <= bcap c').
Proof. exact prefetch_spec. Qed.

(* ---- freeze / matcher reads / unfreeze: matching mode is a view of buf[offset:] ---- *)
(* one MatcherSet.Match: the observations are [spec_set] of the prefetched bytes, the reader
   below and the schedule are untouched, the cursor is restored (state c or c with
   frozenOffset := offset), hence the stream is unchanged *)
Theorem C01_matching_is_a_view : forall ms c inner orc,
  offset c <= length (buf c) ->
  exists c', run_set ms (L4 c inner) orc = (spec_set ms (view c), L4 c' inner, orc) /\
    (c' = c \/ c' = rewound c).
Proof. exact run_set_view. Qed.

Theorem C01_rewound_same_stream : forall c inner, stream_of (L4 (rewound c) inner) = stream_of (L4 c inner).
Proof. exact rewound_stream. Qed.

(* reads in matching mode return consecutive pieces of buf[offset:] and never touch the reader below *)
Theorem C01_matching_reads_are_prefixes : forall ops c inner orc,
  matching c = true -> offset c <= length (buf c) ->
  exists c', run_ops ops (L4 c inner) orc = (spec_ops ops (view c), L4 c' inner, orc) /\
    buf c' = buf c /\ bcap c' = bcap c /\ frozen c' = frozen c /\ matching c' = true /\
    offset c <= offset c' <= length (buf c).
Proof. exact run_ops_matching. Qed.

(* nested freeze: the `not` matcher re-freezes at the same offset for every inner matcher *)
Theorem C01_nested_freeze :
  (forall m c inner orc, matching c = true -> frozen c = offset c -> offset c <= length (buf c) ->
     exists c', run_matcher m (L4 c inner) orc = (spec_matcher m (view c), L4 c' inner, orc) /\
       buf c' = buf c /\ bcap c' = bcap c /\ frozen c' = offset c) /\
  (forall ss c inner orc, offset c <= length (buf c) ->
     exists c', run_sets ss (L4 c inner) orc = (spec_sets ss (view c), L4 c' inner, orc) /\
       (c' = c \/ c' = rewound c)) /\
  (forall ms c inner orc, offset c <= length (buf c) ->
     exists c', run_set ms (L4 c inner) orc = (spec_set ms (view c), L4 c' inner, orc) /\
       (c' = c \/ c' = rewound c) /\ (ms <> MNil -> c' = rewound c)).
Proof. exact matching_tree. Qed.

(* the reachable-state invariant offset <= len(buf): MatcherSet.Match / AnyMatch (the only callers
   of freeze/unfreeze) preserve it, as do Read, prefetch and Wrap (theorems above and below); a
   matching-mode Read can therefore never fall through to the socket *)
Theorem C01_matching_keeps_offset_in_range : forall ss c i orc seen r' o',
  offset c <= length (buf c) -> wfr i ->
  run_sets ss (L4 c i) orc = (seen, r', o') -> wfr r'.
Proof. exact run_sets_wf. Qed.

(* ---- Wrap (repaired): the new Connection adds nothing to and removes nothing from the stream ---- *)
Theorem C01_wrap_stream : forall c conn, stream_of (wrap c conn) = stream_of conn.
Proof. exact wrap_stream. Qed.

(* ---- the shipped wrapping handlers ---- *)
Theorem C01_proxy_protocol : forall prog r orc hdr r' o',
  ok r -> proxy_protocol prog r orc = (hdr, r', o') -> stream_of r = hdr ++ stream_of r' /\ ok r'.
Proof. exact proxy_protocol_ok. Qed.

Theorem C01_tee_main_chain : forall r,
  ok r -> ok (tee_next r) /\ stream_of (tee_next r) = stream_of r /\
  tee_total (tee_next r) = Some (stream_of r) /\ plain_above_tee (tee_next r).
Proof. exact tee_next_ok. Qed.

(* the branch reads the same bytes as the main chain after the tee *)
Theorem C01_tee_branch_same_stream : forall r ns orc ds r2 o2,
  ok r -> reads (tee_next r) ns orc = (ds, EEOF, r2, o2) ->
  ds = stream_of r /\ top_sink r2 = Some (stream_of r) /\
  (forall piped, top_sink r2 = Some piped -> stream_of (tee_branch r piped) = stream_of r).
Proof. exact tee_branch_same_stream. Qed.

(* the same when the router first runs more matching rounds on the adopted connection (later
   routes, a subroute) before the consuming handler reads *)
Theorem C01_tee_then_later_routes : forall r rs orc r1 o1 ns ds r2 o2,
  ok r -> run_rounds rs (tee_next r) orc = (r1, o1) ->
  reads r1 ns o1 = (ds, EEOF, r2, o2) ->
  ds = stream_of r /\ top_sink r2 = Some (stream_of r).
Proof. exact tee_then_rounds_same_stream. Qed.

Theorem C01_throttle : forall b r, ok r -> ok (throttle b r) /\ stream_of (throttle b r) = stream_of r.
Proof. exact throttle_ok. Qed.

(* any number of matching rounds (prefetch / AnyMatch) on a connection: subroute, later routes *)
Theorem C01_routing_rounds : forall rs r orc r' o',
  ok r -> run_rounds rs r orc = (r', o') -> stream_of r' = stream_of r /\ ok r'.
Proof. exact run_rounds_ok. Qed.

Theorem C01_tls_terminate : forall emit xsz k r orc r' o',
  ok r -> tls_terminate emit xsz k r orc = (r', o') ->
  stream_of r' = xf_run emit [] (stream_of r) /\ ok r'.
Proof. exact tls_ok. Qed.

(* ---- the property: handler chains ---- *)
Theorem C01_initial_connection_ok : forall S b cap0, ok (wrap_connection (Net S) b cap0).
Proof. exact initial_ok. Qed.

Theorem C01_chain_stream : forall hs r orc cs r' o',
  ok r -> run_chain hs r orc = (cs, r', o') ->
  stream_of r' = expected_chain hs cs (stream_of r) /\ ok r'.
Proof. exact chain_ok. Qed.

Theorem C01_route_delivers_suffix : forall hs r orc cs r1 o1 ns ds r2 o2,
  ok r -> run_chain hs r orc = (cs, r1, o1) ->
  reads r1 ns o1 = (ds, EEOF, r2, o2) ->
  ds = expected_chain hs cs (stream_of r).
Proof. exact chain_delivers_suffix. Qed.

Theorem C01_route_delivers_prefix : forall hs r orc cs r1 o1 ns ds e r2 o2,
  ok r -> run_chain hs r orc = (cs, r1, o1) ->
  reads r1 ns o1 = (ds, e, r2, o2) ->
  exists rest, expected_chain hs cs (stream_of r) = ds ++ rest.
Proof. exact chain_delivers_prefix. Qed.

(* ---- the constructions before the repairs violate the property (fixed in /repo by 8e3ce5b, cc605f6) ---- *)
Theorem C01_wrap_copying_buffer_refuted :
  exists r prog orc, ok r /\
    let '(hdr, r', _) := proxy_protocol_old prog r orc in
    stream_of r <> hdr ++ stream_of r' /\
    Z.of_nat (length (stream_of r')) = 5903%Z /\ Z.of_nat (length (stream_of r) - length hdr) = 4999%Z.
Proof. exact proxy_protocol_old_refuted. Qed.

Theorem C01_tee_struct_copy_refuted :
  exists r, ok r /\ stream_of (tee_next_old r) <> stream_of r /\
    (forall piped, stream_of (tee_branch_old r piped) <> piped).
Proof. exact tee_old_refuted. Qed.

(* ---- non-vacuity: a concrete connection through matching rounds, proxy_protocol, tee, throttle,
   a consuming handler, read to EOF in 2-byte reads under a 1-byte/3-byte segmentation ---- *)
Definition ex_stream : list byte := ["P"; "X"; "Y"; "a"; "b"; "c"; "d"; "e"; "f"; "g"]%byte.
Definition ex_chain : list handler :=
  [ HRoute [RPrefetch 8; RMatch (SCons (MCons (MPlain [MRead 2; MPeek]) (MCons (MNot (SCons (MCons (MPlain [MRead 1]) MNil) SNil)) MNil)) SNil); RPrefetch 16];
    HProxyProtocol [BFill; BRead 3];
    HTee; HThrottle 2;
    HRoute [RPrefetch 4; RMatch (SCons (MCons (MPlain [MRead 4]) MNil) SNil)];
    HConsume [1; 1] ].
Example C01_nonvacuous :
  let r := wrap_connection (Net ex_stream) [] 0 in
  let orc := [Take 1; Take 3; Timeout; Take 1; Take 2] in
  ok r /\
  let '(cs, r1, o1) := run_chain ex_chain r orc in
  let '(ds, e, r2, _) := reads r1 [2; 2; 2; 2; 2; 2; 2; 2] o1 in
  (* the consuming handler's second read hits the scripted deadline error and stops *)
  cs = [[]; ["P"; "X"; "Y"]; []; []; []; ["a"]]%byte /\ e = EEOF /\
  ds = ["b"; "c"; "d"; "e"; "f"; "g"]%byte /\ ds = expected_chain ex_chain cs ex_stream /\
  top_sink r2 = Some ["a"; "b"; "c"; "d"; "e"; "f"; "g"]%byte.
Proof. cbv zeta. split; [exact (initial_ok _ _ _)|]. vm_compute. repeat split. Qed.

Print Assumptions C01_consts_ok.
Print Assumptions C01_read_stream.
Print Assumptions C01_read_data_xor_error.
Print Assumptions C01_reads_prefix.
Print Assumptions C01_reads_to_eof.
Print Assumptions C01_prefetch_preserves_stream.
Print Assumptions C01_prefetch_buffer_bound.
Print Assumptions C01_prefetch_appends_one_chunk.
Print Assumptions C01_matching_is_a_view.
Print Assumptions C01_rewound_same_stream.
Print Assumptions C01_matching_reads_are_prefixes.
Print Assumptions C01_nested_freeze.
Print Assumptions C01_matching_keeps_offset_in_range.
Print Assumptions C01_wrap_stream.
Print Assumptions C01_proxy_protocol.
Print Assumptions C01_tee_main_chain.
Print Assumptions C01_tee_branch_same_stream.
Print Assumptions C01_tee_then_later_routes.
Print Assumptions C01_throttle.
Print Assumptions C01_routing_rounds.
Print Assumptions C01_tls_terminate.
Print Assumptions C01_initial_connection_ok.
Print Assumptions C01_chain_stream.
Print Assumptions C01_route_delivers_suffix.
Print Assumptions C01_route_delivers_prefix.
Print Assumptions C01_wrap_copying_buffer_refuted.
Print Assumptions C01_tee_struct_copy_refuted.
Print Assumptions C01_nonvacuous.
