(* C14 (small matchers) - stub used while confirming the candidate defects on the unrepaired tree *)
From Coq Require Import String.
From Coq Require Import List NArith ZArith Bool.
From Coq.Strings Require Import Byte.
From L4 Require Import Hex.
From L4.model Require Import GoBase MatchSmall.
Import ListNotations.

Theorem C14_socks5_v0_accepts_zero_methods_refuted :
  exists p, fst (socks5_run_gen false [0; 1; 2]%N p) = Yes /\ p = unhex "0500".
Proof. exists (unhex "0500"). split; vm_compute; reflexivity. Qed.
Print Assumptions C14_socks5_v0_accepts_zero_methods_refuted.
