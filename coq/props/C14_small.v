(* C14 - Protocol matchers accept exactly what the wire definition and the filters say: the small
   matchers.  The references (abstract first message with every field over its full range,
   encoder, mandatory-field predicate wf, filter predicate passes) are in model/MatchSmall.v
   and mention no matcher.  [typed] hypotheses only state field widths and the absence of the
   protocol's own delimiters inside text fields (an encoder is not injective without them).
   Property theorems only (lemmas: proofs/MatchSmallProofs.v). *)
From Coq Require Import String.
From Coq Require Import List NArith ZArith Bool.
From Coq.Strings Require Import Byte.
From L4 Require Import Hex.
From L4.model Require Import GoBase MatchSmall.
From L4.proofs Require Import MatchSmallLemmas MatchSmallProofs.
Import ListNotations.

(* ---- ssh: RFC 4253 identification string ---- *)
Theorem C14_ssh_match_iff_ref : forall m, ssh_typed m -> (ssh_match (ssh_encode m) = Yes <-> ssh_wf m).
Proof. exact ssh_match_iff_ref. Qed.
Theorem C14_ssh_exactly_the_magic : forall bs, ssh_match bs = Yes <-> starts_with bs (unhex "5353482d").
Proof. exact ssh_iff_starts. Qed.

(* ---- proxy_protocol: v1 line or v2 signature ---- *)
Theorem C14_proxy_protocol_match_iff_ref : forall m, pp_typed m -> (pp_match (pp_encode m) = Yes <-> pp_wf m).
Proof. exact pp_match_iff_ref. Qed.
Theorem C14_proxy_protocol_exactly_the_magics : forall bs,
  pp_match bs = Yes <-> (12 <= length bs)%nat /\ (starts_with bs (unhex "50524f5859") \/ starts_with bs pp_sig2).
Proof. exact pp_iff_starts. Qed.

(* ---- xmpp: the documented sniff ("jabber" within the first 50 bytes, at least 50 bytes) ---- *)
Theorem C14_xmpp_exactly_the_sniff : forall bs,
  xmpp_match bs = Yes <->
  (50 <= length bs)%nat /\ exists i, (i + 6 <= 50)%nat /\ occurs_at bs (unhex "6a6162626572") i.
Proof. exact xmpp_iff_occurs. Qed.
Theorem C14_xmpp_rfc6120_complete_partial : forall h,
  (length (xh_pre h) + 14 <= 50)%nat -> (50 <= length (xmpp_encode h))%nat -> xmpp_match (xmpp_encode h) = Yes.
Proof. exact xmpp_header_early_namespace. Qed.
(* against RFC 6120 this is only partial: a stream header with to= before xmlns= is rejected
   (recorded finding C14:xmpp:rejects-valid-late-namespace) *)
Theorem C14_xmpp_rfc6120_complete_refuted :
  occurs_at xmpp_late_header (unhex "786d6c6e733d276a61626265723a636c69656e7427") 53 /\ xmpp_match xmpp_late_header = No.
Proof.
  split; [|exact xmpp_late_namespace_rejected].
  exists (firstn 53 xmpp_late_header), (skipn 74 xmpp_late_header). split; vm_compute; reflexivity.
Qed.

(* ---- socks4 ---- *)
Theorem C14_socks4_match_iff_ref : forall cfg m t,
  socks4_typed m -> Forall cidr_typed (s4_cidrs cfg) ->
  (socks4_match cfg (socks4_encode m ++ t) = Yes <-> socks4_wf m /\ socks4_passes cfg m).
Proof. exact socks4_match_iff_ref. Qed.

(* ---- socks5 ---- *)
Theorem C14_socks5_match_iff_ref : forall auth m t,
  socks5_typed m -> (socks5_match auth (socks5_encode m ++ t) = Yes <-> socks5_wf m /\ socks5_passes auth m).
Proof. exact socks5_match_iff_ref. Qed.
(* the tree before commit b290889 *)
Theorem C14_socks5_v0_zero_methods_refuted :
  exists m, socks5_typed m /\ ~ socks5_wf m /\ fst (socks5_run_gen false [0; 1; 2]%N (socks5_encode m)) = Yes.
Proof. exact socks5_v0_accepts_zero_methods. Qed.

(* ---- postgres: SSLRequest, or StartupMessage >= 3.0 with at least one parameter ---- *)
Theorem C14_postgres_match_iff_ref : forall m t, pg_typed m -> (pg_match (pg_encode m ++ t) = Yes <-> pg_wf m).
Proof. exact pg_match_iff_ref. Qed.
(* the sniff is laxer than the message formats in two places (not treated as defects) *)
Theorem C14_postgres_strict_framing_refuted :
  pg_match (unhex "0000001004d2162f0000000000000000") = Yes /\ pg_match (unhex "0000000f0003000075736572006100") = Yes.
Proof. split; vm_compute; reflexivity. Qed.

(* ---- regexp: the first Count bytes satisfy the pattern (engine abstract) ---- *)
Theorem C14_regexp_match_iff_ref : forall re count bs,
  regexp_match re count bs = Yes <-> (count <= N.of_nat (length bs))%N /\ re (firstn (N.to_nat count) bs) = true.
Proof. exact regexp_iff. Qed.
Theorem C14_regexp_default_count : re_provision 0 = 4%N /\ forall c, (0 < c)%N -> re_provision c = c.
Proof. exact re_provision_spec. Qed.

(* ---- tls record gate (inner ClientHello matchers abstract) ---- *)
Theorem C14_tls_gate_match_iff_ref : forall inner m t,
  tls_typed m -> (tls_match inner (tls_encode m ++ t) = Yes <-> tls_wf m /\ inner (tr_body m) = true).
Proof. exact tls_match_iff_ref. Qed.

(* ---- http request-line gate ---- *)
Theorem C14_http_gate_match_iff_ref : forall m, http_typed m -> (http_gate (http_encode m) = Yes <-> http_wf m).
Proof. exact http_match_iff_ref. Qed.

(* ---- clock: half-open window with the swap and Before = 0 => 24:00:00 rules ---- *)
Theorem C14_clock_match_iff_ref : forall after before now,
  clock_match (clock_provision after before) now = Yes <-> clock_ref after before now.
Proof. exact clock_iff_ref. Qed.
Theorem C14_clock_second_of_day : forall unix offset, (0 <= clock_now unix offset < 86400)%Z.
Proof. exact clock_now_range. Qed.

(* ---- remote_ip / local_ip: CIDR containment over 32/128-bit values ---- *)
Theorem C14_ip_match_iff_ref : forall cidrs a,
  Forall cidr_typed cidrs -> addr_typed a -> (ip_match cidrs (Some a) = Yes <-> ip_ref cidrs a).
Proof. exact ip_match_iff_ref. Qed.

(* ---- not: matches iff every negated matcher set answers No ---- *)
Theorem C14_not_yes_iff : forall sets p, not_match sets p = Yes <-> Forall (fun ms => mset_match ms p = No) sets.
Proof. exact not_yes_iff. Qed.
Theorem C14_not_no_iff : forall sets p,
  not_match sets p = No <->
  exists a ms b, sets = a ++ ms :: b /\ Forall (fun ms' => mset_match ms' p = No) a /\ mset_match ms p = Yes.
Proof. exact not_no_iff. Qed.
Theorem C14_matcher_set_is_conjunction : forall ms p, mset_match ms p = Yes <-> Forall (fun m : matcher => m p = Yes) ms.
Proof. exact mset_yes_iff. Qed.


Theorem C14_not_is_negated_or : forall sets p, sets <> [] ->
  (not_match sets p = Yes <-> any_match sets p = No) /\ (not_match sets p = No <-> any_match sets p = Yes).
Proof. exact not_is_negated_any. Qed.
Theorem C14_anymatch_yes_iff : forall sets p,
  any_match_go sets p = Yes <->
  exists a ms b, sets = a ++ ms :: b /\ Forall (fun ms' => mset_match ms' p = No) a /\ mset_match ms p = Yes.
Proof. exact any_go_yes_iff. Qed.

(* ---- the boolean references the engine computes in Go (and the correspondence check recomputes
   from the abstract message carried in KRef cases) are these references ---- *)
Theorem C14_socks4_engine_reference : forall cfg m,
  socks4_typed m -> Forall cidr_typed (s4_cidrs cfg) ->
  (socks4_ref_b cfg m = true <-> socks4_wf m /\ socks4_passes cfg m).
Proof. exact socks4_ref_b_iff. Qed.
Theorem C14_socks5_engine_reference : forall auth m, socks5_ref_b auth m = true <-> socks5_wf m /\ socks5_passes auth m.
Proof. exact socks5_ref_b_iff. Qed.
Theorem C14_postgres_engine_reference : forall m, pg_ref_b m = true <-> pg_wf m.
Proof. exact pg_ref_b_iff. Qed.

(* ---- non-vacuity: typed, well-formed messages that pass and that fail the filters ---- *)
Definition ex_s4 : socks4_msg := {| s4_vn := x04; s4_cd := x01; s4_port := 443; s4_ip := 167772161; s4_user := unhex "726f6f74" |}.
Definition ex_cfg : socks4_cfg :=
  {| s4_commands := [1%N]; s4_ports := [80%N; 443%N]; s4_cidrs := [{| c_is6 := false; c_addr := 167772160; c_bits := 8 |}] |}.
Example C14_nonvacuous :
  socks4_typed ex_s4 /\ Forall cidr_typed (s4_cidrs ex_cfg) /\
  socks4_match ex_cfg (socks4_encode ex_s4) = Yes /\
  socks4_match {| s4_commands := [2%N]; s4_ports := []; s4_cidrs := [] |} (socks4_encode ex_s4) = No /\
  socks4_match ex_cfg (socks4_encode {| s4_vn := x04; s4_cd := x01; s4_port := 443; s4_ip := 184549377; s4_user := [] |}) = No /\
  pg_typed (PgStartup 3 0 [(unhex "75736572", unhex "61")]) /\
  pg_match (pg_encode (PgStartup 3 0 [(unhex "75736572", unhex "61")])) = Yes /\
  pg_match (pg_encode (PgStartup 3 0 [])) = No /\
  socks5_match [0%N; 2%N] (socks5_encode {| s5_ver := x05; s5_methods := [x00; x02] |}) = Yes /\
  socks5_match [0%N; 2%N] (socks5_encode {| s5_ver := x05; s5_methods := [x00; x01] |}) = No /\
  socks5_match [0%N; 2%N] (socks5_encode {| s5_ver := x05; s5_methods := [] |}) = No /\
  clock_match (clock_provision 79200 21600) 36000 = Yes /\ clock_match (clock_provision 36000 0) 86399 = Yes.
Proof.
  split; [cbv; split; reflexivity|]. split; [repeat constructor|].
  split; [vm_compute; reflexivity|]. split; [vm_compute; reflexivity|]. split; [vm_compute; reflexivity|].
  split.
  { cbn [pg_typed]. split; [split; reflexivity|]. split; [vm_compute; discriminate|]. split; [|discriminate].
    constructor; [|constructor]. cbn [fst snd]. split; [discriminate|]. split; intros H; vm_compute in H; intuition discriminate. }
  repeat split; vm_compute; reflexivity.
Qed.

Print Assumptions C14_ssh_match_iff_ref.
Print Assumptions C14_ssh_exactly_the_magic.
Print Assumptions C14_proxy_protocol_match_iff_ref.
Print Assumptions C14_proxy_protocol_exactly_the_magics.
Print Assumptions C14_xmpp_exactly_the_sniff.
Print Assumptions C14_xmpp_rfc6120_complete_refuted.
Print Assumptions C14_socks4_match_iff_ref.
Print Assumptions C14_socks5_match_iff_ref.
Print Assumptions C14_socks5_v0_zero_methods_refuted.
Print Assumptions C14_postgres_match_iff_ref.
Print Assumptions C14_regexp_match_iff_ref.
Print Assumptions C14_tls_gate_match_iff_ref.
Print Assumptions C14_http_gate_match_iff_ref.
Print Assumptions C14_clock_match_iff_ref.
Print Assumptions C14_ip_match_iff_ref.
Print Assumptions C14_not_yes_iff.
Print Assumptions C14_not_no_iff.
Print Assumptions C14_matcher_set_is_conjunction.
Print Assumptions C14_socks4_engine_reference.
Print Assumptions C14_socks5_engine_reference.
Print Assumptions C14_postgres_engine_reference.
Print Assumptions C14_xmpp_rfc6120_complete_partial.
Print Assumptions C14_not_is_negated_or.
Print Assumptions C14_anymatch_yes_iff.
