(* C12 - PROXY protocol: received headers stripped and honoured, sent headers exact.
   Property theorems only; every proof is [exact <lemma>] (lemmas: proofs/ProxyProtoProofs.v), or a
   [vm_compute] witness for Examples / refutations.

   Reading guide.  [encode_v1]/[encode_v2] are the HAProxy specification's encoders; [parse] is the
   accepted language of mastercactapus/proxyprotocol v0.0.4; [handle] is Handler.Handle of
   modules/l4proxyprotocol as the source has it now ([handle_with false _] = before commit cb6bc63, [handle_with _ false] = before the proxyConn wrapper);
   [tidy_rules]/[new_conn] its allow list; [upstream_bytes] what dialPeers + proxy make an
   upstream receive.  Streams are byte lists (segmentation: C01). *)
From Coq Require Import String List ZArith NArith Bool Permutation.
From Coq.Strings Require Import Byte.
From L4 Require Import Hex.
From L4.gen Require Import Consts Shape.
From L4.model Require Import GoBase ProxyProto.
From L4.proofs Require Import ProxyProtoProofs.
Import ListNotations.
Open Scope N_scope.

(* ------------------------------------------------------------------ codec round trips *)

(* v1: parsing the specification's encoding of ANY well-formed header followed by ANY payload
   returns that header and leaves exactly the payload.  UNKNOWN and TCP4 unconditionally ... *)
Theorem C12_parse_encode_v1_unknown_tcp4 : forall render6 h payload,
  (match h with V1Tcp6 _ _ _ _ => False | _ => True end) -> v1_wf h ->
  parse (encode_v1_with render6 h ++ payload) = POk (v1_hdr h) payload.
Proof. exact parse_encode_v1_no6. Qed.
(* ... and TCP6 for every IPv6 text renderer whose output net.ParseIP reads back ... *)
Theorem C12_parse_encode_v1 : forall render6 h payload, ip6_text_ok render6 -> v1_wf h ->
  parse (encode_v1_with render6 h ++ payload) = POk (v1_hdr h) payload.
Proof. exact parse_encode_v1_with. Qed.

(* the premise holds for the model's renderer, i.e. net/netip's RFC 5952 text with "::" compression
   read back by netip.parseIPv6 - proved, for all 2^128 addresses *)
Theorem C12_ip6_text_roundtrip : ip6_text_ok render_ip6.
Proof. exact render_ip6_text_ok. Qed.
(* hence: every well-formed v1 header (UNKNOWN, TCP4, TCP6), every payload *)
Theorem C12_parse_encode_v1_all : forall h payload, v1_wf h ->
  parse (encode_v1 h ++ payload) = POk (v1_hdr h) payload.
Proof. exact parse_encode_v1. Qed.

(* v2 without TLVs: every command, family, transport, address, port, unix path *)
Theorem C12_parse_encode_v2 : forall h payload, v2_wf h -> s_tlvs h = [] ->
  parse (encode_v2 h ++ payload) = POk (v2_hdr h) payload.
Proof. exact parse_encode_v2. Qed.

(* the library rejects every v2 header that carries TLVs: outside the property's premise *)
Theorem C12_v2_tlv_rejected : forall h payload, v2_wf h -> s_tlvs h <> [] ->
  N.of_nat (length (block_bytes (s_block h) ++ tlvs_bytes (s_tlvs h))) < 65536 ->
  parse (encode_v2 h ++ payload) = PBad.
Proof. exact v2_tlv_rejected. Qed.

(* numbers as decimal text (ports, IPv4 octets) and IPv4 dotted text read back *)
Theorem C12_decimal_roundtrip : forall n, dec_val (dec n) = n.
Proof. exact dec_val_dec. Qed.
Theorem C12_ipv4_text_roundtrip : forall a, a < two32 -> parse_ip (render_ip4 a) = Some (IP4 a).
Proof. exact parse_ip_render4. Qed.

(* ------------------------------------------------------------------ allow list *)

(* sort.Slice is only known to permute: for EVERY permutation-producing sort, sorting and the
   in-place compaction of tidyRules preserve the SET of configured subnets ... *)
Theorem C12_tidy_preserves_rule_set : forall sort, (forall l, Permutation (sort l) l) ->
  forall rules n, In n (map r_net (tidy_rules_with sort rules)) <-> In n (map r_net rules).
Proof. exact tidy_nets. Qed.
(* ... so a peer is PROXY-parsed iff no list is configured or some configured CIDR contains it *)
Theorem C12_allow_iff_contained_any_sort : forall sort, (forall l, Permutation (sort l) l) ->
  forall timeout rules remote,
  new_conn timeout (tidy_rules_with sort rules) remote <> None <-> peer_allowed rules remote.
Proof. exact allow_iff_contained_with. Qed.
Theorem C12_allow_iff_contained : forall timeout rules remote,
  new_conn timeout (tidy_rules rules) remote <> None <-> peer_allowed rules remote.
Proof. exact (allow_iff_contained_with isort isort_perm). Qed.
(* CIDR containment over 32/128-bit numbers is the address range of the masked base *)
Theorem C12_cidr_is_range : forall bits ones base a, ones <= bits -> base mod 2 ^ (bits - ones) = 0 ->
  prefix_eq bits ones base a = true <-> base <= a < base + 2 ^ (bits - ones).
Proof. exact prefix_eq_range. Qed.

(* peers outside the allow list are passed through untouched: same addresses, same replacer
   entries, same stream, no PROXY variable *)
Theorem C12_outside_allow_list_untouched : forall timeout rules cv,
  ~ peer_allowed rules (c_remote cv) -> handle timeout (tidy_rules rules) cv = HPass cv.
Proof. exact outside_allow_list_untouched. Qed.

(* ------------------------------------------------------------------ received headers: stripped and honoured *)

(* an allowed peer sending a v1 / v2 header: exactly the header bytes are removed, the next
   handler sees the declared addresses (or the real ones where the header declares none) *)
Theorem C12_received_v1_stripped_and_honoured : forall render6 timeout rules cv h payload,
  ip6_text_ok render6 -> v1_wf h ->
  new_conn timeout rules (c_remote cv) <> None -> c_stream cv = encode_v1_with render6 h ++ payload ->
  handle timeout rules cv = HNext (accepted_view l4proxyprotocol_handle_sets_placeholders l4proxyprotocol_undeclared_addr_falls_back cv (v1_hdr h) payload).
Proof. exact (fun r => received_v1 r _ _). Qed.
Theorem C12_received_v1_unknown_tcp4_stripped_and_honoured : forall render6 timeout rules cv h payload,
  (match h with V1Tcp6 _ _ _ _ => False | _ => True end) -> v1_wf h ->
  new_conn timeout rules (c_remote cv) <> None -> c_stream cv = encode_v1_with render6 h ++ payload ->
  handle timeout rules cv = HNext (accepted_view l4proxyprotocol_handle_sets_placeholders l4proxyprotocol_undeclared_addr_falls_back cv (v1_hdr h) payload).
Proof. exact (fun r => received_v1_no6 r _ _). Qed.
Theorem C12_received_v1_all_stripped_and_honoured : forall timeout rules cv h payload, v1_wf h ->
  new_conn timeout rules (c_remote cv) <> None -> c_stream cv = encode_v1 h ++ payload ->
  handle timeout rules cv = HNext (accepted_view l4proxyprotocol_handle_sets_placeholders l4proxyprotocol_undeclared_addr_falls_back cv (v1_hdr h) payload).
Proof. exact received_v1_all. Qed.
Theorem C12_received_v2_stripped_and_honoured : forall timeout rules cv h payload,
  v2_wf h -> s_tlvs h = [] ->
  new_conn timeout rules (c_remote cv) <> None -> c_stream cv = encode_v2 h ++ payload ->
  handle timeout rules cv = HNext (accepted_view l4proxyprotocol_handle_sets_placeholders l4proxyprotocol_undeclared_addr_falls_back cv (v2_hdr h) payload).
Proof. exact (received_v2 _ _). Qed.
(* a v2 header with TLVs is not accepted: the handler fails, nothing is passed on *)
Theorem C12_received_v2_tlv_dropped : forall timeout rules cv h payload,
  v2_wf h -> s_tlvs h <> [] -> N.of_nat (length (block_bytes (s_block h) ++ tlvs_bytes (s_tlvs h))) < 65536 ->
  new_conn timeout rules (c_remote cv) <> None -> c_stream cv = encode_v2 h ++ payload ->
  handle timeout rules cv = HError.
Proof. exact (received_v2_tlv _ _). Qed.

(* placeholders: after an accepted header the replacer entries l4.conn.remote_addr /
   l4.conn.local_addr hold what the connection now reports (= the header's addresses by the
   theorems above).  Depends on the fact gen/Shape.v reads from handler.go. *)
Theorem C12_placeholders_follow_header : forall timeout rules cv v,
  handle timeout rules cv = HNext v -> c_repl_remote v = c_remote v /\ c_repl_local v = c_local v.
Proof. exact placeholders_follow_header. Qed.
(* the handler as it was before commit cb6bc63 (no replacer update) violates it:
   peer 10.1.2.3:51000 sends "PROXY TCP4 1.2.3.4 5.6.7.8 1000 2000\r\n" *)
Theorem C12_placeholders_without_update_refuted : exists cv v,
  handle_with false true 0 [] cv = HNext v /\ c_remote v = ATcp (IP4 16909060) 1000 /\ c_repl_remote v = ATcp (IP4 167838211) 51000.
Proof.
  exists (wrap_connection (ATcp (IP4 167838211) 51000) (ATcp (IP4 2130706433) 4433)
            (encode_v1 (V1Tcp4 16909060 84281096 1000 2000) ++ txt "hello")).
  eexists. vm_compute. repeat split.
Qed.

(* v2 LOCAL and v2 UNSPEC declare nothing: the real addresses stay in force ... *)
Example C12_v2_local_keeps_real_addresses :
  handle 0 [] (wrap_connection (ATcp (IP4 167838211) 51000) (ATcp (IP4 2130706433) 4433)
                 (encode_v2 {| s_local := true; s_proto := 0; s_block := V2Unspec; s_tlvs := [] |} ++ txt "x"))
  = HNext {| c_remote := ATcp (IP4 167838211) 51000; c_local := ATcp (IP4 2130706433) 4433;
             c_repl_remote := ATcp (IP4 167838211) 51000; c_repl_local := ATcp (IP4 2130706433) 4433;
             c_stream := txt "x"; c_ppvar := Some (ATcp (IP4 167838211) 51000, ATcp (IP4 2130706433) 4433) |}.
Proof. vm_compute. reflexivity. Qed.
(* ... and so does v1 "PROXY UNKNOWN": every allowed peer, every payload - the next handler sees
   the REAL addresses, the placeholders hold them, the stream is the payload.  (The library alone
   reports a *net.TCPAddr without IP here; Handler.Handle hands on a wrapper that falls back to
   the connection's own addresses - fact read from handler.go.) *)
Theorem C12_v1_unknown_keeps_real_addresses : forall timeout rules cv payload,
  new_conn timeout rules (c_remote cv) <> None -> c_stream cv = encode_v1 V1Unknown ++ payload ->
  exists v, handle timeout rules cv = HNext v /\
    c_remote v = c_remote cv /\ c_local v = c_local cv /\ c_stream v = payload /\
    c_repl_remote v = c_remote cv /\ c_repl_local v = c_local cv.
Proof. exact unknown_keeps_real. Qed.
(* the handler without that wrapper (before the repair) reported a fabricated address with a nil
   IP and port 0 instead of the real peer 10.1.2.3:51000 *)
Theorem C12_v1_unknown_without_wrapper_refuted : exists cv v,
  handle_with true false 0 [] cv = HNext v /\ c_stream cv = encode_v1 V1Unknown ++ txt "x" /\
  c_remote cv = ATcp (IP4 167838211) 51000 /\ c_remote v = ATcp IPnil 0 /\ c_local v = ATcp IPnil 0.
Proof.
  exists (wrap_connection (ATcp (IP4 167838211) 51000) (ATcp (IP4 2130706433) 4433) (encode_v1 V1Unknown ++ txt "x")).
  eexists. vm_compute. repeat split.
Qed.

(* ------------------------------------------------------------------ sent headers *)

(* v1: what HeaderV1.WriteTo emits for the effective addresses IS the specification's encoding:
   TCP4 / TCP6 when both are TCP of one family, UNKNOWN otherwise *)
Theorem C12_sent_v1_is_spec_encoding : forall si sp di dp, ip_ok si -> ip_ok di -> sp < two16 -> dp < two16 ->
  lib_write_v1 si sp di dp =
    encode_v1 (if is4 si && is4 di then V1Tcp4 (as4 si) (as4 di) sp dp
               else if negb (is4 si) && negb (is4 di) && is16 si && is16 di then V1Tcp6 (as16 si) (as16 di) sp dp
               else V1Unknown).
Proof. exact lib_write_v1_spec. Qed.
(* v2: likewise for TCP and UDP pairs (INET / INET6, UNSPEC for mixed families) *)
Theorem C12_sent_v2_is_spec_encoding : forall proto si sp di dp, ip_ok si -> ip_ok di -> (proto = 1 \/ proto = 2) ->
  let mk := if proto =? 1 then ATcp else AUdp in
  lib_write_v2 1 (Some (mk si sp)) (Some (mk di dp)) =
    Some (encode_v2 {| s_local := false; s_proto := proto; s_tlvs := [];
                       s_block := if is4 si && is4 di then V2Inet (as4 si) (as4 di) (sp mod two16) (dp mod two16)
                                  else if negb (is4 si) && negb (is4 di) && is16 si && is16 di
                                       then V2Inet6 (as16 si) (as16 di) (sp mod two16) (dp mod two16)
                                       else V2Unspec |}).
Proof. exact lib_write_v2_inet. Qed.

(* whatever the effective addresses are, a v1 upstream receives ONE header the receiver accepts,
   immediately followed by exactly the client's stream *)
Theorem C12_sent_v1_one_header_then_stream : forall cv r l,
  effective cv = (r, l) ->
  (match r with ATcp i p => ip_ok i /\ p < two16 | _ => True end) ->
  (match l with ATcp i p => ip_ok i /\ p < two16 | _ => True end) ->
  exists hs h, v1_wf hs /\ upstream_bytes 1 cv = Some (encode_v1 hs ++ c_stream cv) /\
    parse (encode_v1 hs ++ c_stream cv) = POk h (c_stream cv).
Proof. exact sent_stream_exact_v1_all. Qed.

(* ------------------------------------------------------------------ composition sender -> receiver *)

(* what dialPeers emits (v1), fed to the receiving handler of an allowed peer, yields the client's
   effective addresses (those it received by PROXY protocol if any: [effective]), the client's
   stream, and placeholders that agree - IPv4 and IPv6 *)
Theorem C12_sender_receiver_roundtrip_v1 : forall cv ri rp li lp timeout rules cv2,
  effective cv = (ATcp ri rp, ATcp li lp) -> ip_ok ri -> ip_ok li -> rp < two16 -> lp < two16 -> same_family ri li ->
  new_conn timeout rules (c_remote cv2) <> None ->
  upstream_bytes 1 cv = Some (c_stream cv2) ->
  exists v, handle timeout rules cv2 = HNext v /\
    c_remote v = ATcp (norm_ip ri) rp /\ c_local v = ATcp (norm_ip li) lp /\ c_stream v = c_stream cv /\
    c_repl_remote v = c_remote v /\ c_repl_local v = c_local v.
Proof. exact roundtrip_v1_all. Qed.
(* v2: TCP and UDP, IPv4 and IPv6, unconditionally *)
Theorem C12_sender_receiver_roundtrip_v2 : forall cv proto ri rp li lp timeout rules cv2,
  (proto = 1 \/ proto = 2) ->
  let mk := if proto =? 1 then ATcp else AUdp in
  effective cv = (mk ri rp, mk li lp) -> ip_ok ri -> ip_ok li -> rp < two16 -> lp < two16 -> same_family ri li ->
  new_conn timeout rules (c_remote cv2) <> None ->
  upstream_bytes 2 cv = Some (c_stream cv2) ->
  exists v, handle timeout rules cv2 = HNext v /\
    c_remote v = mk (norm_ip ri) rp /\ c_local v = mk (norm_ip li) lp /\ c_stream v = c_stream cv /\
    c_repl_remote v = c_remote v /\ c_repl_local v = c_local v.
Proof. exact roundtrip_v2. Qed.

(* ------------------------------------------------------------------ ties to the source, non-vacuity *)

(* the matcher's prefixes in /repo are the signatures the model parses *)
Example C12_consts_ok :
  l4proxyprotocol_headerV2Prefix = sig_v2 /\ l4proxyprotocol_headerV1Prefix = txt "PROXY" /\
  l4proxyprotocol_handle_sets_placeholders = true /\ l4proxyprotocol_undeclared_addr_falls_back = true /\
  l4proxy_dial_uses_getconn = true /\
  l4proxy_dial_header_before_append = true.
Proof. vm_compute. repeat split. Qed.

(* the IPv6 text premise holds on addresses of every compression shape (leading, trailing,
   inner, two equal runs, a single zero group, none, IPv4-mapped, all ones, all zeros) *)
Example C12_ip6_text_examples :
  forallb (fun a => match parse_ip (render_ip6 a) with
                    | Some i => ip_eqb i (IP6 a) && (length (render_ip6 a) <=? 39)%nat
                                && forallb (fun b => negb (is_space b)) (render_ip6 a)
                    | None => false end)
    [0; 1; 2 ^ 112; 2 ^ 127 + 1; 2 ^ 128 - 1; 2 ^ 112 + 2 ^ 64 + 5; 2 ^ 112 + 2 ^ 80 + 2 ^ 32 + 5;
     2 ^ 96 + 2 ^ 16; 281470698652420; 42540766411282592856903984951653826561;
     2 ^ 112 + 2 ^ 96 + 2 ^ 80 + 2 ^ 64 + 2 ^ 48 + 2 ^ 32 + 2 ^ 16; 2 ^ 16; 65535 * 2 ^ 112 + 43981;
     338288524927261089654018896841347694593; 2 ^ 48 + 1; 2 ^ 64; 2 ^ 80 + 2 ^ 16 + 1] = true.
Proof. vm_compute. reflexivity. Qed.

(* the hypotheses of the round-trip theorems are satisfiable, and the theorems say something:
   a concrete v1 TCP6 header with payload, a v2 UDP6 header, a TLV header *)
Example C12_example_v1_tcp6 :
  parse (encode_v1 (V1Tcp6 42540766411282592856903984951653826561 1 40000 8443) ++ txt "payload")
  = POk {| h_version := 1; h_cmd := 1;
           h_src := Some (ATcp (IP6 42540766411282592856903984951653826561) 40000);
           h_dst := Some (ATcp (IP6 1) 8443) |} (txt "payload").
Proof. vm_compute. reflexivity. Qed.
Example C12_example_v2_udp6 :
  v2_wf {| s_local := false; s_proto := 2; s_block := V2Inet6 1 0 0 9; s_tlvs := [] |} /\
  parse (encode_v2 {| s_local := false; s_proto := 2; s_block := V2Inet6 1 0 0 9; s_tlvs := [] |} ++ txt "payload")
  = POk {| h_version := 2; h_cmd := 1; h_src := Some (AUdp (IP6 1) 0); h_dst := Some (AUdp (IP6 0) 9) |} (txt "payload").
Proof. vm_compute. repeat split; discriminate. Qed.
Example C12_example_allow_list :
  let rules := map (fun n => {| r_net := n; r_timeout := 0%Z |})
                 [ {| n_bits := 32; n_base := 167772160; n_ones := 8 |};      (* 10.0.0.0/8 *)
                   {| n_bits := 32; n_base := 167838208; n_ones := 24 |};     (* 10.1.2.0/24 *)
                   {| n_bits := 32; n_base := 167772160; n_ones := 8 |};      (* duplicate *)
                   {| n_bits := 128; n_base := 1; n_ones := 128 |} ] in       (* ::1/128 *)
  length (tidy_rules rules) = 4%nat /\
  map (fun r => n_ones (r_net r)) (tidy_rules rules) = [128; 24; 8; 8] /\
  new_conn 0 (tidy_rules rules) (ATcp (IP4 167838211) 1) = Some 0%Z /\   (* 10.1.2.3 *)
  new_conn 0 (tidy_rules rules) (ATcp (IP4 184549377) 1) = None /\       (* 11.0.0.1 *)
  new_conn 0 (tidy_rules rules) (ATcp (IP6 1) 1) = Some 0%Z /\
  new_conn 0 (tidy_rules rules) (AUnix false []) = None.
Proof. vm_compute. repeat split. Qed.

Print Assumptions C12_parse_encode_v1_unknown_tcp4.
Print Assumptions C12_parse_encode_v1.
Print Assumptions C12_ip6_text_roundtrip.
Print Assumptions C12_parse_encode_v1_all.
Print Assumptions C12_parse_encode_v2.
Print Assumptions C12_v2_tlv_rejected.
Print Assumptions C12_decimal_roundtrip.
Print Assumptions C12_ipv4_text_roundtrip.
Print Assumptions C12_tidy_preserves_rule_set.
Print Assumptions C12_allow_iff_contained_any_sort.
Print Assumptions C12_allow_iff_contained.
Print Assumptions C12_cidr_is_range.
Print Assumptions C12_outside_allow_list_untouched.
Print Assumptions C12_received_v1_stripped_and_honoured.
Print Assumptions C12_received_v1_unknown_tcp4_stripped_and_honoured.
Print Assumptions C12_received_v1_all_stripped_and_honoured.
Print Assumptions C12_received_v2_stripped_and_honoured.
Print Assumptions C12_received_v2_tlv_dropped.
Print Assumptions C12_placeholders_follow_header.
Print Assumptions C12_placeholders_without_update_refuted.
Print Assumptions C12_v2_local_keeps_real_addresses.
Print Assumptions C12_v1_unknown_keeps_real_addresses.
Print Assumptions C12_v1_unknown_without_wrapper_refuted.
Print Assumptions C12_sent_v1_is_spec_encoding.
Print Assumptions C12_sent_v2_is_spec_encoding.
Print Assumptions C12_sent_v1_one_header_then_stream.
Print Assumptions C12_sender_receiver_roundtrip_v1.
Print Assumptions C12_sender_receiver_roundtrip_v2.
Print Assumptions C12_consts_ok.
Print Assumptions C12_ip6_text_examples.
Print Assumptions C12_example_v1_tcp6.
Print Assumptions C12_example_v2_udp6.
Print Assumptions C12_example_allow_list.
