(* C12 - PROXY protocol: received headers stripped and honoured, sent headers exact. *)
From Coq Require Import String List ZArith NArith Bool.
From Coq.Strings Require Import Byte.
From L4.model Require Import GoBase ProxyProto.
Import ListNotations.
Open Scope N_scope.

Example C12_model_runs : parse (encode_v1 V1Unknown) = POk {| h_version := 1; h_cmd := 1; h_src := Some (ATcp IPnil 0); h_dst := Some (ATcp IPnil 0) |} [].
Proof. vm_compute. reflexivity. Qed.
Print Assumptions C12_model_runs.
