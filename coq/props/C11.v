(* C11 - Upstream health, failure windows, retries and limits are accounted exactly.
   Property theorems only (lemmas: proofs/HealthProofs.v). *)
From Coq Require Import List ZArith Bool Lia.
From L4.gen Require Import Shape.
From L4.model Require Import Select Health.
From L4.proofs Require Import HealthProofs.
Import ListNotations.
Open Scope Z_scope.

(* the generated shape facts the model relies on (these break when the source changes shape) *)
Theorem C11_shape_forgetter : forgetter_exact = true.
Proof. vm_compute. reflexivity. Qed.
Theorem C11_shape_try_again : try_again_exact = true.
Proof. vm_compute. reflexivity. Qed.

(* at every time t (not before the last event), fails p = number of failures in (t - D, t], never negative *)
Theorem C11_fails_is_window_count : forall c h lo t p,
  0 <= fail_duration c -> sortedb h lo = true -> lo <= t -> times_le h t ->
  h_fails (state_at c h t) p = window_count c h t p /\ 0 <= h_fails (state_at c h t) p.
Proof. exact fails_is_window_count. Qed.

(* an upstream is in rotation exactly when no peer is marked unhealthy, no peer has max_fails
   failures remembered from the window, and no peer has reached the connection limit *)
Theorem C11_out_of_rotation_iff : forall c h lo t u,
  0 <= fail_duration c -> sortedb h lo = true -> lo <= t -> times_le h t ->
  (avail c (state_at c h t) u = true <->
   (forall p, In p (peers_of c u) -> h_unhealthy (state_at c h t) p = 0) /\
   (0 < max_fails c -> forall p, In p (peers_of c u) -> window_count c h t p < max_fails c) /\
   (nth u (max_conns c) 0 = 0 \/ forall p, In p (peers_of c u) -> h_conns (state_at c h t) p < nth u (max_conns c) 0)).
Proof.
  intros c h lo t u HD Hs Hlo Hall. rewrite avail_iff.
  split; intros [H1 [H2 H3]]; (split; [exact H1|split; [|exact H3]]); intros Hp p Hin;
    specialize (H2 Hp p Hin); destruct (fails_is_window_count c h lo t p HD Hs Hlo Hall) as [E _]; lia.
Qed.

(* ... and the failures stop counting once they are older than fail_duration *)
Theorem C11_back_in_rotation : forall c h lo t p,
  0 <= fail_duration c -> sortedb h lo = true -> lo <= t -> times_le h t ->
  (forall t' q, In (t', DialFail q) h -> t' + fail_duration c <= t) ->
  h_fails (state_at c h t) p = 0.
Proof.
  intros c h lo t p HD Hs Hlo Hall Hexp.
  destruct (fails_is_window_count c h lo t p HD Hs Hlo Hall) as [E _]. rewrite E. apply window_count_expired; assumption.
Qed.

(* attempts: the first at the start; attempt k is followed by another one exactly when it failed
   while elapsed < try_duration, try_interval (plus slack) later *)
Theorem C11_retry_schedule : forall td ti start atts ts o,
  handle td ti start atts = (ts, o) ->
  (atts <> [] -> nth 0 ts 0 = start) /\
  (forall k, (S k < length ts)%nat ->
     let a := nth k atts (ADialOk, 0, 0) in
     att_ok a = false /\ nth k ts 0 + att_d a - start < td /\
     nth (S k) ts 0 = nth k ts 0 + att_d a + ti + att_j a) /\
  (forall e, o = Failed e ->
     let m := length ts in let a := nth (m - 1) atts (ADialOk, 0, 0) in
     (1 <= m <= length atts)%nat /\ att_ok a = false /\ td <= nth (m - 1) ts 0 + att_d a - start /\
     e = err_of (last_error (map att_kind (firstn m atts)) None)) /\
  (o = Proxied ->
     (1 <= length ts <= length atts)%nat /\ att_ok (nth (length ts - 1) atts (ANoUpstream, 0, 0)) = true /\
     forall k, (k < length ts - 1)%nat -> att_ok (nth k atts (ADialOk, 0, 0)) = false).
Proof.
  intros td ti start atts ts o H. split; [|split; [|split]].
  - destruct atts as [|a r]; [congruence|]. intros _. eapply handle_first_attempt; eassumption.
  - exact (handle_loop_schedule td ti start atts start None ts o H).
  - intros e He. exact (handle_loop_failed td ti start atts start None ts o e H He).
  - intros ->. exact (handle_loop_proxied td ti start atts start None ts H).
Qed.

(* without slack: attempts at t0, t0 + try_interval, t0 + 2 try_interval, ... *)
Theorem C11_retry_schedule_ideal : forall td ti start atts ts o,
  Forall (fun a => att_d a = 0 /\ att_j a = 0) atts ->
  handle td ti start atts = (ts, o) ->
  forall k, (k < length ts)%nat -> nth k ts 0 = start + Z.of_nat k * ti.
Proof. intros td ti start atts ts o Hf H. exact (handle_loop_ideal td ti start atts start None ts o Hf H). Qed.

(* the flag of a peer is the outcome of its last active check: down while probes fail, up after a success *)
Theorem C11_active_marks : forall c h t p,
  h_unhealthy (state_at c h t) p = match last_probe h p None with Some false => 1 | _ => 0 end.
Proof. exact active_marks. Qed.

(* peer.countConn is called up and down (gen/Shape.v: one call site countConn(1), one countConn(-1));
   this breaks when the call sites disappear from the source *)
Theorem C11_shape_conns_counted : conns_counted = true.
Proof. vm_compute. reflexivity. Qed.

(* max_connections: an upstream limited to m never has more than m open proxied connections
   (connections admitted one at a time, every peer in exactly one upstream) *)
Theorem C11_max_conns_respected : forall c h u,
  topo_ok c -> admitted c hinit h ->
  (u < length (topo c))%nat -> 0 < nth u (max_conns c) 0 ->
  h_open (run_hist c h) u <= nth u (max_conns c) 0.
Proof. intros c h u. exact (max_conns_respected c h u C11_shape_conns_counted). Qed.

(* what was wrong before commit e1b3888 (countConn without call sites): were the connections not
   counted, two connections would be admitted to an upstream limited to one *)
Theorem C11_max_conns_unenforced_if_uncounted :
  conns_counted = false ->
  exists c h u, topo_ok c /\ admitted c hinit h /\ (u < length (topo c))%nat /\ 0 < nth u (max_conns c) 0 /\
                nth u (max_conns c) 0 < h_open (run_hist c h) u.
Proof.
  intros Hn. destruct (max_conns_exceeded_when_uncounted Hn) as [A [B [C D]]].
  exists cfg_one, hist_two, 0%nat. split; [exact A|]. split; [exact B|]. split; [cbn; lia|]. rewrite C, D. lia.
Qed.

(* the limit at work: the second connection is not admitted to upstream 0, the one after a close is *)
Example C11_max_conns_example :
  admittedb cfg_one hinit [(0, Open 0); (50, Open 0)] = false /\
  admittedb cfg_one hinit [(0, Open 0); (50, Open 1); (90, Close 0); (120, Open 0)] = true.
Proof. vm_compute. split; reflexivity. Qed.

(* the effective limit: max_connections if set, else the passive unhealthy_connection_count, whatever
   fail_duration and max_fails are (they are not arguments) *)
Theorem C11_effective_limit : forall passive_on ucc raw,
  (raw <> 0 -> effective_max_conns passive_on ucc raw = raw) /\
  (0 < ucc -> effective_max_conns true ucc 0 = ucc) /\
  effective_max_conns false ucc 0 = 0.
Proof. exact effective_limit_spec. Qed.

(* ---- non-vacuity ---- *)
Definition ex_cfg : hcfg := mkH true 200 2 [[0%nat]; [1%nat]] [0; 0].
Definition ex_hist : list tev := [(0, DialFail 0); (30, DialFail 0); (60, Open 1); (400, Close 1); (410, Probe 1 false)].
Example C11_window_example :
  sortedb ex_hist 0 = true /\
  h_fails (state_at ex_cfg ex_hist 410) 0%nat = 0 /\
  h_fails (state_at ex_cfg (firstn 3 ex_hist) 100) 0%nat = 2 /\ avail ex_cfg (state_at ex_cfg (firstn 3 ex_hist) 100) 0%nat = false /\
  h_fails (state_at ex_cfg (firstn 3 ex_hist) 215) 0%nat = 1 /\ avail ex_cfg (state_at ex_cfg (firstn 3 ex_hist) 215) 0%nat = true /\
  avail ex_cfg (state_at ex_cfg ex_hist 410) 1%nat = false.
Proof. vm_compute. repeat split. Qed.
Example C11_retry_example :
  handle 100 30 0 [(ADialErr 7, 0, 0); (ANoUpstream, 0, 1); (ADialErr 8, 0, 0); (ANoUpstream, 0, 0); (ANoUpstream, 0, 0)]
  = ([0; 30; 61; 91; 121], Failed 8).
Proof. vm_compute. reflexivity. Qed.

Print Assumptions C11_fails_is_window_count.
Print Assumptions C11_out_of_rotation_iff.
Print Assumptions C11_back_in_rotation.
Print Assumptions C11_retry_schedule.
Print Assumptions C11_retry_schedule_ideal.
Print Assumptions C11_active_marks.
Print Assumptions C11_max_conns_respected.
Print Assumptions C11_effective_limit.
Print Assumptions C11_max_conns_unenforced_if_uncounted.
