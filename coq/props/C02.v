(* Property C02 — routes run in order and only when matched; otherwise the fallback runs once.

   All theorems are about model/Router.v's [compile] (the transcription of RouteList.Compile with
   its four loop variables), for an ARBITRARY network below the connection (net, now, set_dl,
   nread: any clock / deadline / read behaviour, i.e. every arrival schedule), arbitrary fuel,
   nesting depth d, route list rs (matchers with and/or/not, handlers incl. nested subroutes),
   timeout t and start state s.  [own] is what this invocation appended to the trace (nested
   subroute invocations are themselves [compile] calls at depth d+1 — every theorem applies to
   them with their own start state; c02_next_once says how an invocation and its continuation
   compose).  The tie to the Go code is the C02 engine (corr/C02Corr.v). *)
From Coq Require Import List NArith ZArith Bool Arith Sorted String.
From Coq.Strings Require Import Byte.
From L4 Require Import Hex.
From L4.model Require Import GoBase Router RouterSpec.
From L4.proofs Require Import RouterProofs RouterTotal.
Import ListNotations.
Close Scope Z_scope.
Open Scope nat_scope.

Section C02.
Variable net : Type.
Variable now : net -> Z.
Variable set_dl : option Z -> net -> net.
Variable nread : nat -> net -> rres * net.
Variable npush : list byte -> net -> net.
Notation compile := (compile net now set_dl nread npush).
Variables (fuel d : nat) (rs : list route) (t : Z) (s : st net).
Let r := compile fuel d rs t (fun s' => Cont s') s.
Let own := own_evs s r.

(* a route's handlers start only if one of its matcher sets (every matcher in it) matched the
   bytes available at that moment *)
Theorem runs_only_if_matched : forall i b, In (ERun d i b) own ->
  exists mss, nth_mss rs i = Some mss /\ anymatch mss b = Yes.
Proof. exact (c02_runs_only_if_matched net now set_dl nread npush fuel d rs t s). Qed.

(* routes of one invocation run in configured order, none twice *)
Theorem runs_in_order_no_repeat : StronglySorted lt (run_idxs d own).
Proof. exact (c02_runs_in_order_no_repeat net now set_dl nread npush fuel d rs t s). Qed.

(* when route j runs, no route between the previously run one and j matches the same bytes
   (needs: matcher sets never go back on a No — property C06) *)
Theorem decided_match_not_skipped : forall pre j b post, stable_routes rs -> own = pre ++ ERun d j b :: post ->
  forall i mss, lto (last_run d None pre) i = true -> i < j -> nth_mss rs i = Some mss -> anymatch mss b <> Yes.
Proof. exact (c02_decided_match_not_skipped net now set_dl nread npush fuel d rs t s). Qed.

(* whenever the loop uses a cached routeNotMatched (`i <= lastNeedsMoreIdx`), re-evaluating the route
   on the bytes now available would also say No *)
Theorem cache_sound : forall i b, stable_routes rs -> In (ESkip d i b) own ->
  exists mss, nth_mss rs i = Some mss /\ anymatch mss b = No.
Proof. exact (c02_cache_sound net now set_dl nread npush fuel d rs t s). Qed.

(* if the available bytes decide every earlier route, the route that runs is the first matching one *)
Theorem first_match_when_decided : forall pre j b post, stable_routes rs -> own = pre ++ ERun d j b :: post ->
  (forall i mss, lto (last_run d None pre) i = true -> i < j -> nth_mss rs i = Some mss -> decided (anymatch mss b)) ->
  (exists mss, nth_mss rs j = Some mss /\ anymatch mss b = Yes) /\
  (forall i mss, lto (last_run d None pre) i = true -> i < j -> nth_mss rs i = Some mss -> anymatch mss b = No).
Proof. exact (c02_first_match_when_decided net now set_dl nread npush fuel d rs t s). Qed.

(* the fallback is called at most once; exactly once iff the invocation hands the connection on *)
Theorem fallback_exactly_once : count_fb d own = (if is_cont r then 1 else 0).
Proof. exact (c02_fallback_count net now set_dl nread npush fuel d rs t s). Qed.

(* ... it is the last thing the invocation does, on the connection state it ends in *)
Theorem fallback_is_last : is_cont r = true -> exists own', own = own' ++ [EFallback d (avail (res_st r))].
Proof. exact (c02_fallback_is_last net now set_dl nread npush fuel d rs t s). Qed.

(* ... and only when every route after the last one that ran is decided as not matching *)
Theorem fallback_only_when_all_no : forall b, stable_routes rs -> In (EFallback d b) own ->
  forall i mss, lto (last_run d None own) i = true -> nth_mss rs i = Some mss -> anymatch mss b = No.
Proof. exact (c02_fallback_all_no net now set_dl nread npush fuel d rs t s). Qed.

(* never after a drop (timeout, buffer full, network or matcher error): the drop is the last event
   of the invocation and the connection is not handed on *)
Theorem fallback_never_after_drop : forall w, In (EDrop d w) own ->
  is_cont r = false /\ count_fb d own = 0 /\ exists l', proj d own = l' ++ [EDrop d w].
Proof. exact (c02_never_after_drop net now set_dl nread npush fuel d rs t s). Qed.

(* whatever comes after the route list (close, the handler after a subroute, the listener
   hand-off) receives the connection exactly once, in the state the invocation ended in *)
Theorem next_receives_connection_once : forall next,
  compile fuel d rs t next s = bind r next.
Proof. exact (fun next => c02_next_once net now set_dl nread npush fuel d rs t next s). Qed.
(* after a NON-TERMINAL route (ghost event ENext d i b2: its handlers called the last handler, leaving b2 available)
   the next thing the invocation does at its depth concerns a later route — run or cached skip of an index > i —
   or is the fallback, on the connection as the handlers left it (b2, extended by what was prefetched since);
   or the connection is dropped *)
Theorem nonterminal_continues_trace : forall pre i b2 post, own = pre ++ ENext d i b2 :: post ->
  match proj d post with [] => True | e :: _ => next_ok d i b2 e end.
Proof. exact (c02_nonterminal_continues_trace net now set_dl nread npush fuel d rs t s). Qed.

(* after a route whose handlers did not hand the connection on (terminal handler, failing handler, or a nested
   route list that ended the connection) nothing else runs: the invocation's later events at its depth are reads
   or the error of that very route (everything else in own is deeper: min_depth), and the connection is not
   handed on *)
Theorem terminal_stops_trace : forall pre i b post, own = pre ++ ERun d i b :: post ->
  (forall b2, ~ In (ENext d i b2) post) ->
  Forall (in_chain_ev d i) (proj d post) /\ is_cont r = false.
Proof. exact (c02_terminal_stops_trace net now set_dl nread npush fuel d rs t s). Qed.

End C02.

Section C02Steps.
Variable net : Type.
Variable now : net -> Z.
Variable set_dl : option Z -> net -> net.
Variable nread : nat -> net -> rres * net.
Variable npush : list byte -> net -> net.

(* after a non-terminal route matching resumes at route i+1 on the connection as its handlers left it *)
Theorem nonterminal_continues : forall sub d i mss hs rest lm lnm stt nm (s s2 : st net),
  leo i lm = false -> is_no (stt i) && leo i lnm = false ->
  anymatch mss (avail s) = Yes ->
  chain net now nread npush sub d i hs (fun st' => Cont st') (emit net now (ERun d i (avail s)) (clear net now set_dl s)) = Cont s2 ->
  pass net now set_dl nread npush sub d i (Route mss hs :: rest) lm lnm stt nm s
  = pass net now set_dl nread npush sub d (S i) rest (Some i) (Some i) (setst stt i SYes) nm (emit net now (ENext d i (avail s2)) s2).
Proof. exact (c02_nonterminal_continues net now set_dl nread npush). Qed.

(* after a terminal route (or a failing handler) nothing else runs *)
Theorem terminal_stops : forall sub d i mss hs rest lm lnm stt nm (s : st net) r,
  leo i lm = false -> is_no (stt i) && leo i lnm = false ->
  anymatch mss (avail s) = Yes ->
  chain net now nread npush sub d i hs (fun st' => Cont st') (emit net now (ERun d i (avail s)) (clear net now set_dl s)) = r ->
  is_cont r = false ->
  pass net now set_dl nread npush sub d i (Route mss hs :: rest) lm lnm stt nm s = PFinal r.
Proof. exact (c02_terminal_stops_pass net now set_dl nread npush). Qed.

Theorem terminal_stops_invocation : forall sub d rs dl next g lm lnm stt (nm : bool) (s s' : st net) r,
  (if nm then prefetch net nread (arm net now set_dl dl s) else (inl (arm net now set_dl dl s) : st net + dropwhy * st net)) = inl s' ->
  pass net now set_dl nread npush sub d 0 rs lm lnm stt nm s' = PFinal r ->
  loop net now set_dl nread npush sub d rs dl next (S g) lm lnm stt nm s = r.
Proof. exact (c02_terminal_stops_loop net now set_dl nread npush). Qed.
End C02Steps.

(* Totality: with fuel >= need_rs rs (a computed bound: (number of routes) * (MaxMatchingBytes + 1) +
   MaxMatchingBytes + 2 passes per route list, one unit more per subroute nesting level) an invocation never
   runs out of fuel, over any network that keeps an invariant under which a successful read returns at least
   one byte.  The safety theorems above hold for every fuel; this one says the fuel the correspondence
   checkers use (need_rs rs) is always enough. *)
Theorem compile_total : forall net now set_dl nread npush (net_ok : net -> Prop),
  (forall m n, net_ok n -> net_ok (snd (nread m n))) ->
  (forall v n, net_ok n -> net_ok (set_dl v n)) ->
  (forall b n, net_ok n -> net_ok (npush b n)) ->
  (forall m n dta n', net_ok n -> 0 < m -> nread m n = (RData dta, n') -> dta <> []) ->
  0 < CHUNK ->
  forall fuel d rs t next (s : st net), fuel_ok rs fuel -> net_ok (nt s) ->
  (forall s', is_exh (next s') = false) ->
  is_exh (compile net now set_dl nread npush fuel d rs t next s) = false.
Proof. exact RouterTotal.compile_total. Qed.

(* the model as run by the correspondence checker (scripted network, no empty chunk) *)
Theorem model_run_total : forall rs pre script, chunks_nonempty script ->
  is_exh (s_serve (need_rs rs) rs pre script) = false.
Proof. exact s_serve_total. Qed.

(* Non-vacuity: three No-stable routes, the first decided No early (its cached verdict is used on the
   third pass: ESkip), the second undecided for two passes and not terminal, the third terminal. *)
Open Scope string_scope.
Example c02_example_stable : stable_routes ex_routes.
Proof. exact ex_routes_stable. Qed.

Example c02_example_trace :
  let r := s_serve 20 ex_routes [] [Chunk (unhex "010203"); Chunk (unhex "040506"); Chunk (unhex "07")] in
  evs (res_st r) =
    [EArm; EArm; EArm; ESkip 0 0 (unhex "010203040506"); EClear; ERun 0 1 (unhex "010203040506");
     ERead 0 1 (unhex "0102"); ENext 0 1 (unhex "03040506"); EClear; ERun 0 2 (unhex "03040506")]
  /\ is_cont r = false.
Proof. vm_compute. split; reflexivity. Qed.

Print Assumptions runs_only_if_matched.
Print Assumptions runs_in_order_no_repeat.
Print Assumptions decided_match_not_skipped.
Print Assumptions cache_sound.
Print Assumptions first_match_when_decided.
Print Assumptions fallback_exactly_once.
Print Assumptions fallback_is_last.
Print Assumptions fallback_only_when_all_no.
Print Assumptions fallback_never_after_drop.
Print Assumptions next_receives_connection_once.
Print Assumptions nonterminal_continues_trace.
Print Assumptions terminal_stops_trace.
Print Assumptions nonterminal_continues.
Print Assumptions terminal_stops.
Print Assumptions terminal_stops_invocation.
Print Assumptions compile_total.
Print Assumptions model_run_total.
Print Assumptions c02_example_stable.
Print Assumptions c02_example_trace.
