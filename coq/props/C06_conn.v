(* C06 (Connection-level half) - evaluating matchers never reads from the network, never changes
   what later matchers or handlers will read, and observes the same bytes when repeated.
   (Matcher-level No-stability is proved per matcher elsewhere.)  Every proof is [exact <lemma>]. *)
From Coq Require Import List ZArith NArith Bool Arith.
From Coq.Strings Require Import Byte.
From L4.model Require Import Conn.
From L4.proofs Require Import ConnProofs.
Import ListNotations.
Local Open Scope nat_scope.

(* MatcherSets.AnyMatch on a connection: the reader below the Connection (down to the socket) and
   the segmentation schedule are returned untouched; the bytes pending in the socket and the
   stream handlers will read are unchanged *)
Theorem C06_matching_never_reads_network : forall ss c i orc,
  offset c <= length (buf c) ->
  exists obs c', run_sets ss (L4 c i) orc = (obs, L4 c' i, orc) /\
    net_pending (L4 c' i) = net_pending (L4 c i) /\ stream_of (L4 c' i) = stream_of (L4 c i).
Proof. exact run_sets_network. Qed.

(* what the matchers of a set observe is [spec_set] of the prefetched bytes buf[offset:] alone
   (reads return consecutive pieces of it, MatchingBytes returns it) and the cursor is restored *)
Theorem C06_matching_is_a_view : forall ms c inner orc,
  offset c <= length (buf c) ->
  exists c', run_set ms (L4 c inner) orc = (spec_set ms (view c), L4 c' inner, orc) /\
    (c' = c \/ c' = rewound c).
Proof. exact run_set_view. Qed.

(* the observations (hence the verdict of any matcher that is a function of what it reads) depend
   only on the prefetched bytes: not on the socket, the schedule, the capacity, earlier history *)
Theorem C06_verdict_depends_only_on_prefix : forall ms c1 i1 o1 c2 i2 o2,
  offset c1 <= length (buf c1) -> offset c2 <= length (buf c2) -> view c1 = view c2 ->
  fst (fst (run_set ms (L4 c1 i1) o1)) = fst (fst (run_set ms (L4 c2 i2) o2)).
Proof. exact run_set_deterministic. Qed.

(* repeating the evaluation on the same connection gives the same observations and leaves the
   stream as it was *)
Theorem C06_verdict_repeatable : forall ms c i orc,
  offset c <= length (buf c) ->
  exists obs c1 c2, run_set ms (L4 c i) orc = (obs, L4 c1 i, orc) /\
    run_set ms (L4 c1 i) orc = (obs, L4 c2 i, orc) /\
    stream_of (L4 c2 i) = stream_of (L4 c i).
Proof. exact run_set_repeatable. Qed.

(* non-vacuity: a set with a plain matcher and a `not` matcher on a connection with 5 prefetched
   bytes of which 1 is consumed; the socket still holds 2 bytes *)
Example C06_conn_nonvacuous :
  let c := mkC ["a"; "b"; "c"; "d"; "e"]%byte 8 1 0 false in
  let ms := MCons (MPlain [MRead 2; MPeek; MRead 9; MRead 1]) (MCons (MNot (SCons (MCons (MPlain [MRead 1]) MNil) SNil)) MNil) in
  run_set ms (L4 c (Net ["f"; "g"]%byte)) [Take 1] =
  ([ORead ["b"; "c"]%byte ENil; OPeek (Some ["d"; "e"]%byte); ORead ["d"; "e"]%byte ENil; ORead [] EConsumed;
    ORead ["b"]%byte ENil],
   L4 (mkC ["a"; "b"; "c"; "d"; "e"]%byte 8 1 1 false) (Net ["f"; "g"]%byte), [Take 1]).
Proof. vm_compute. reflexivity. Qed.

Print Assumptions C06_matching_never_reads_network.
Print Assumptions C06_matching_is_a_view.
Print Assumptions C06_verdict_depends_only_on_prefix.
Print Assumptions C06_verdict_repeatable.
Print Assumptions C06_conn_nonvacuous.
