(* C18 (OpenVPN part) - wire-message codecs are exact inverses and reject wrong lengths.
   Property theorems only; every proof is [exact <lemma>] (lemmas: proofs/CodecOpenVpnProofs.v).
   For each exported type X of modules/l4openvpn/messages.go:
     X_to_from              from_bytes b = Ok x  ->  to_bytes x = b
     X_from_to              wf x                 ->  from_bytes (to_bytes x) = Ok x
     X_rejects_wrong_length length b not a length of X  ->  from_bytes b = Err
   and the same for FromBytesHeadless (the header byte is supplied separately). *)
From Coq Require Import List NArith ZArith Bool Arith.
From Coq.Strings Require Import Byte.
From L4.model Require Import GoBase CodecOpenVpn.
From L4.proofs Require Import CodecOpenVpnProofs.
Import ListNotations.

(* the sizes the theorems speak about, as the source's const block evaluates today *)
Theorem C18_openvpn_consts :
  plain_hl = 13%nat /\ plain_total = 14%nat /\ auth_min_hl = 37%nat /\ auth_max_hl = 85%nat /\ crypt_hl = 53%nat /\
  crypt2_min_hl = 343%nat /\ crypt2_max_hl = 1077%nat /\ wk_min = 290%nat /\ wk_max = 1024%nat /\
  op_v2 = 7%N /\ op_v3 = 10%N /\ keyid_mask = 7%N /\ op_shift = 3%N /\
  auth_digest_sizes = [16; 20; 28; 32; 36; 48; 64]%nat /\ digest_size digest_default = crypt_hmac.
Proof. exact consts_ok. Qed.

(* ---- MessageHeader ---- *)
Theorem C18_header_to_from : forall b h, header_from_bytes b = ROk h -> header_to_bytes h = b.
Proof. exact header_to_from. Qed.
Theorem C18_header_from_to : forall h, header_wf h -> header_from_bytes (header_to_bytes h) = ROk h.
Proof. exact header_from_to. Qed.
Theorem C18_header_rejects_wrong_length : forall b, length b <> 1%nat -> header_from_bytes b = RErr ErrInvalidSourceLength.
Proof. exact header_rejects_wrong_length. Qed.

(* ---- MessagePlain ---- *)
Theorem C18_plain_to_from : forall b m, plain_from_bytes b = ROk m -> plain_to_bytes m = b.
Proof. exact plain_to_from. Qed.
Theorem C18_plain_from_to : forall m, plain_wf m -> opcode (p_hdr m) = op_v2 -> plain_from_bytes (plain_to_bytes m) = ROk m.
Proof. exact plain_from_to. Qed.
Theorem C18_plain_rejects_wrong_length : forall b, length b <> 14%nat -> plain_from_bytes b = RErr ErrInvalidSourceLength.
Proof. exact plain_rejects. Qed.
Theorem C18_plain_headless_to_from : forall b h m, plain_from_headless b h = ROk m -> plain_to_bytes m = header_to_bytes h ++ b.
Proof. exact plain_headless_to_from. Qed.
Theorem C18_plain_headless_rejects_wrong_length : forall b h, length b <> 13%nat -> plain_from_headless b h = RErr ErrInvalidSourceLength.
Proof. exact plain_headless_rejects. Qed.

(* ---- MessageAuth: 22 + digest size bytes ---- *)
Theorem C18_auth_to_from : forall b m, auth_from_bytes b = ROk m -> auth_to_bytes m = b.
Proof. exact auth_to_from. Qed.
Theorem C18_auth_from_to : forall m, auth_wf m -> opcode (a_hdr m) = op_v2 -> auth_from_bytes (auth_to_bytes m) = ROk m.
Proof. exact auth_from_to. Qed.
Theorem C18_auth_rejects_wrong_length : forall b m, auth_from_bytes b = ROk m -> auth_len_ok (length b).
Proof. exact auth_ok_length. Qed.
Theorem C18_auth_rejects_out_of_range : forall b, (length b < 38)%nat \/ (86 < length b)%nat -> auth_from_bytes b = RErr ErrInvalidSourceLength.
Proof. exact auth_rejects. Qed.
Theorem C18_auth_headless_to_from : forall b h m, auth_from_headless b h = ROk m -> auth_to_bytes m = header_to_bytes h ++ b.
Proof. exact auth_headless_to_from. Qed.
Theorem C18_auth_headless_rejects_wrong_length : forall b h m, auth_from_headless b h = ROk m ->
  (37 <= length b <= 85)%nat /\ size_ok (length b - 21) = true /\ length (a_hmac m) = (length b - 21)%nat.
Proof. exact auth_headless_ok_length. Qed.

(* ---- MessageCrypt ---- *)
Theorem C18_crypt_to_from : forall b m, crypt_from_bytes b = ROk m -> crypt_to_bytes m = b.
Proof. exact crypt_to_from. Qed.
(* the encrypted tail (PrevPacketIDsCount, ThisPacketID) is not on the wire in clear: wf fixes it to the zero value FromBytes leaves *)
Theorem C18_crypt_from_to : forall m, crypt_wf m -> opcode (c_hdr m) = op_v2 -> crypt_from_bytes (crypt_to_bytes m) = ROk m.
Proof. exact crypt_from_to. Qed.
Theorem C18_crypt_rejects_wrong_length : forall b, length b <> 54%nat -> crypt_from_bytes b = RErr ErrInvalidSourceLength.
Proof. exact crypt_rejects. Qed.
Theorem C18_crypt_headless_to_from : forall b h m, crypt_from_headless b h = ROk m -> crypt_to_bytes m = header_to_bytes h ++ b.
Proof. exact crypt_headless_to_from. Qed.
Theorem C18_crypt_headless_rejects_wrong_length : forall b h, length b <> 53%nat -> crypt_from_headless b h = RErr ErrInvalidSourceLength.
Proof. exact crypt_headless_rejects. Qed.

(* ---- WrappedKey ---- *)
Theorem C18_wkey_to_from : forall b k, wkey_from_bytes b = ROk k -> wkey_to_bytes k = b.
Proof. exact wkey_to_from. Qed.
Theorem C18_wkey_from_to : forall k, wkey_wf k -> wkey_from_bytes (wkey_to_bytes k) = ROk k.
Proof. exact wkey_from_to. Qed.
Theorem C18_wkey_rejects_wrong_length : forall b, (length b < 290)%nat \/ (1024 < length b)%nat -> wkey_from_bytes b = RErr ErrInvalidSourceLength.
Proof. exact wkey_rejects. Qed.

(* ---- MessageCrypt2 ---- *)
Theorem C18_crypt2_to_from : forall b m, crypt2_from_bytes b = ROk m -> crypt2_to_bytes m = b.
Proof. exact crypt2_to_from. Qed.
Theorem C18_crypt2_from_to : forall m, crypt2_wf m -> opcode (c_hdr (r_crypt m)) = op_v3 -> crypt2_from_bytes (crypt2_to_bytes m) = ROk m.
Proof. exact crypt2_from_to. Qed.
Theorem C18_crypt2_rejects_wrong_length : forall b, (length b < 344)%nat \/ (1078 < length b)%nat -> crypt2_from_bytes b = RErr ErrInvalidSourceLength.
Proof. exact crypt2_rejects. Qed.
Theorem C18_crypt2_headless_to_from : forall b h m, crypt2_from_headless b h = ROk m -> crypt2_to_bytes m = header_to_bytes h ++ b.
Proof. exact crypt2_headless_to_from. Qed.
Theorem C18_crypt2_headless_rejects_wrong_length : forall b h, (length b < 343)%nat \/ (1077 < length b)%nat ->
  crypt2_from_headless b h = RErr ErrInvalidSourceLength.
Proof. exact crypt2_headless_rejects. Qed.

(* ---- receivers that are not fresh (reused after another message, or pre-filled with lastDigest as the matcher does):
        acceptance, the error and every assigned field do not depend on the previous state; the fields FromBytes* does not
        assign keep it; the laws hold for every previous state ---- *)
Theorem C18_auth_any_receiver_rejects_wrong_length : forall dg0 b h m d, auth_from_headless_st dg0 b h = ROk (m, d) ->
  (37 <= length b <= 85)%nat /\ size_ok (length b - 21) = true /\ length (a_hmac m) = (length b - 21)%nat /\ d = dg0.
Proof. exact auth_st_rejects_wrong_length. Qed.
Theorem C18_auth_any_receiver_frombytes_rejects_wrong_length : forall dg0 b m d, auth_from_bytes_st dg0 b = ROk (m, d) ->
  auth_len_ok (length b) /\ d = dg0.
Proof. exact auth_st_bytes_rejects_wrong_length. Qed.
Theorem C18_auth_any_receiver_to_from : forall dg0 b h m d, auth_from_headless_st dg0 b h = ROk (m, d) -> auth_to_bytes m = header_to_bytes h ++ b.
Proof. exact auth_st_to_from. Qed.
Theorem C18_auth_receiver_state_irrelevant : forall dg1 dg2 b h,
  match auth_from_headless_st dg1 b h, auth_from_headless_st dg2 b h with
  | ROk (m1, _), ROk (m2, _) => m1 = m2 | RErr e1, RErr e2 => e1 = e2 | RPanic, RPanic => True | _, _ => False end.
Proof. exact auth_st_indep. Qed.
Theorem C18_crypt_any_receiver_rejects_wrong_length : forall p0 q0 b h, length b <> 53%nat ->
  crypt_from_headless_st p0 q0 b h = RErr ErrInvalidSourceLength.
Proof. exact crypt_st_rejects_wrong_length. Qed.
Theorem C18_crypt_any_receiver_frombytes_rejects_wrong_length : forall p0 q0 b, length b <> 54%nat ->
  crypt_from_bytes_st p0 q0 b = RErr ErrInvalidSourceLength.
Proof. exact crypt_st_bytes_rejects_wrong_length. Qed.
Theorem C18_crypt_any_receiver_to_from : forall p0 q0 b h m, crypt_from_headless_st p0 q0 b h = ROk m -> crypt_to_bytes m = header_to_bytes h ++ b.
Proof. exact crypt_st_to_from. Qed.
Theorem C18_crypt2_any_receiver_rejects_wrong_length : forall p0 q0 b h, (length b < 343)%nat \/ (1077 < length b)%nat ->
  crypt2_from_headless_st p0 q0 b h = RErr ErrInvalidSourceLength.
Proof. exact crypt2_st_rejects_wrong_length. Qed.
Theorem C18_crypt2_any_receiver_to_from : forall p0 q0 b h m, crypt2_from_headless_st p0 q0 b h = ROk m -> crypt2_to_bytes m = header_to_bytes h ++ b.
Proof. exact crypt2_st_to_from. Qed.

(* ---- non-vacuity: concrete well-formed values round-trip, concrete wrong lengths are rejected ---- *)
Definition ex_hdr := {| opcode := 7; keyid := 0 |}.
Definition ex_plain := {| p_hdr := ex_hdr; p_sid := 9452287970026068; p_prev := 0; p_pid := 0 |}.
Definition ex_auth := {| a_hdr := ex_hdr; a_sid := 77; a_hmac := repeat x41 20; a_rpid := 1; a_rts := 1700000000; a_prev := 0; a_pid := 0 |}.
Example C18_openvpn_nonvacuous :
  plain_from_bytes (plain_to_bytes ex_plain) = ROk ex_plain /\ length (plain_to_bytes ex_plain) = 14%nat /\
  auth_from_bytes (auth_to_bytes ex_auth) = ROk ex_auth /\ length (auth_to_bytes ex_auth) = 42%nat /\
  auth_from_bytes (auth_to_bytes ex_auth ++ [x00]) = RErr ErrInvalidHMACLength /\
  plain_from_bytes (plain_to_bytes ex_plain ++ [x00]) = RErr ErrInvalidSourceLength.
Proof. vm_compute. repeat split. Qed.

Print Assumptions C18_openvpn_consts.
Print Assumptions C18_header_to_from.
Print Assumptions C18_header_from_to.
Print Assumptions C18_header_rejects_wrong_length.
Print Assumptions C18_plain_to_from.
Print Assumptions C18_plain_from_to.
Print Assumptions C18_plain_rejects_wrong_length.
Print Assumptions C18_plain_headless_to_from.
Print Assumptions C18_plain_headless_rejects_wrong_length.
Print Assumptions C18_auth_to_from.
Print Assumptions C18_auth_from_to.
Print Assumptions C18_auth_rejects_wrong_length.
Print Assumptions C18_auth_rejects_out_of_range.
Print Assumptions C18_auth_headless_to_from.
Print Assumptions C18_auth_headless_rejects_wrong_length.
Print Assumptions C18_crypt_to_from.
Print Assumptions C18_crypt_from_to.
Print Assumptions C18_crypt_rejects_wrong_length.
Print Assumptions C18_crypt_headless_to_from.
Print Assumptions C18_crypt_headless_rejects_wrong_length.
Print Assumptions C18_wkey_to_from.
Print Assumptions C18_wkey_from_to.
Print Assumptions C18_wkey_rejects_wrong_length.
Print Assumptions C18_crypt2_to_from.
Print Assumptions C18_crypt2_from_to.
Print Assumptions C18_crypt2_rejects_wrong_length.
Print Assumptions C18_crypt2_headless_to_from.
Print Assumptions C18_crypt2_headless_rejects_wrong_length.
Print Assumptions C18_auth_any_receiver_rejects_wrong_length.
Print Assumptions C18_auth_any_receiver_frombytes_rejects_wrong_length.
Print Assumptions C18_auth_any_receiver_to_from.
Print Assumptions C18_auth_receiver_state_irrelevant.
Print Assumptions C18_crypt_any_receiver_rejects_wrong_length.
Print Assumptions C18_crypt_any_receiver_frombytes_rejects_wrong_length.
Print Assumptions C18_crypt_any_receiver_to_from.
Print Assumptions C18_crypt2_any_receiver_rejects_wrong_length.
Print Assumptions C18_crypt2_any_receiver_to_from.
Print Assumptions C18_openvpn_nonvacuous.
