(* C13 (byte-level half) - the connection handed over to the wrapped listener reads the client's
   stream intact: its prefetched bytes are not overwritten by other connections, for every
   interleaving.  Model: model/Pool.v with the life cycle of listener.handle read from
   gen/Shape.v (layer4_listener_handle_put_unconditional).  Lemmas: proofs/PoolProofs.v. *)
From Coq Require Import List Arith Bool String.
From Coq.Strings Require Import Byte.
From L4 Require Import Hex.
From L4.model Require Import Pool.
From L4.proofs Require Import PoolProofs.
Import ListNotations.
Local Open Scope string_scope.

(* listener.handle as it stands returns its array only when the connection does not live on *)
Theorem C13_listener_lifecycle_is_conditional_put : good_disc listener_disc.
Proof. exact listener_disc_good. Qed.

(* every byte a connection sees (while matching, in its handlers, after hand-over to the wrapped
   listener) is the byte it sees when no other connection exists *)
Theorem C13_handover_stream_intact : forall es c,
  got_of (prun listener_disc pinit es) c = got_of (prun listener_disc pinit (alone c es)) c.
Proof. exact noninterference_listener. Qed.

(* no array that is in the pool is still referenced by a live (e.g. handed-over) connection *)
Theorem C13_handover_buffer_not_in_pool : forall es c st b,
  cs (prun listener_disc pinit es) c = Some st -> live st = true -> In b (refs st) ->
  ~ In b (free (prun listener_disc pinit es)).
Proof. exact no_free_referenced_listener. Qed.

(* the life cycle before f83061f (Put although hijacked): connection 1 is handed over with "AAAA"
   buffered, connection 2 gets the same array from the pool and prefetches "BBBB", then the
   consumer of connection 1 reads "BBBB" *)
Definition ex_handover : list pevent :=
  [ PGet 1 None; PPrefetch 1 (unhex "41414141") None 0; PReturn 1 true;
    PGet 2 (Some 0); PPrefetch 2 (unhex "42424242") None 0; PRead 1 4 ].

Theorem C13_handover_unconditional_put_refuted : exists es c,
  got_of (prun unconditional_put_disc pinit es) c <> got_of (prun unconditional_put_disc pinit (alone c es)) c.
Proof. exists ex_handover, 1. vm_compute. discriminate. Qed.

Example C13_handover_example_bad : got_of (prun unconditional_put_disc pinit ex_handover) 1 = unhex "42424242".
Proof. vm_compute. reflexivity. Qed.
(* the same schedule under today's life cycle: the array of connection 1 is not in the pool, so
   connection 2 gets a new one *)
Example C13_handover_example_good : got_of (prun listener_disc pinit ex_handover) 1 = unhex "41414141".
Proof. vm_compute. reflexivity. Qed.

Print Assumptions C13_listener_lifecycle_is_conditional_put.
Print Assumptions C13_handover_stream_intact.
Print Assumptions C13_handover_buffer_not_in_pool.
Print Assumptions C13_handover_unconditional_put_refuted.
Print Assumptions C13_handover_example_bad.
Print Assumptions C13_handover_example_good.
