(* C15 - Caddyfile and JSON configurations are equivalent, loadable and round-trip. *)
From Coq Require Import List ZArith NArith Bool String.
From L4.model Require Import Caddyfile CaddyfileLeaves.
From L4.proofs Require Import CaddyfileProofs.
Import ListNotations.

Theorem C15_adapt_deterministic : forall ts j1 j2, adapt_l4 ts = Some j1 -> adapt_l4 ts = Some j2 -> j1 = j2.
Proof. exact adapt_deterministic_l. Qed.
Print Assumptions C15_adapt_deterministic.
