(* C15 - Caddyfile and JSON configurations are equivalent, loadable and round-trip.
   Property theorems only; every proof is [exact <lemma>] (lemmas: proofs/CaddyfileProofs.v,
   proofs/CaddyfileLeafProofs.v) or a computed example.

   Partial: the theorems are about the model of layer4/caddyfile.go and of the leaf modules'
   UnmarshalCaddyfile over Caddy's token stream (model/Caddyfile.v, model/CaddyfileLeaves.v);
   Caddy's lexer, Dispenser cursor and module loader are not modelled, "loads and provisions" is
   checked by the engine only.  Leaf equations are proved for every modelled module
   ([mleaf_proved] = [mleaf_ok], [hleaf_proved] = [hleaf_ok]); not modelled (engine oracle only): request matchers other than host/path/method/not inside http,
   client_auth / insecure_secrets_log and cert_selection's public_key_algorithm in the tls handler, tls_trust_pool, exponent-form rates. *)
From Coq Require Import List ZArith NArith Bool String.
From L4.model Require Import Caddyfile CaddyfileLeaves.
From L4.proofs Require Import CaddyfileProofs CaddyfileLeafProofs.
Import ListNotations.
Open Scope string_scope.

(* Caddy's token stream of a printed segment tree reads back to the tree *)
Theorem C15_tokens_roundtrip : forall l, forallb seg_wf l = true -> parse_file (print_segs l) = Some l.
Proof. exact parse_file_print. Qed.

(* the structural theorem, for ANY leaf types satisfying the leaf equations: every configuration of
   any nesting depth (not / tee / subroute / several servers / several global blocks) *)
Theorem C15_adapt_structural_partial :
  forall (mleaf hleaf : Type) mleaf_name mleaf_seg mleaf_json hleaf_name hleaf_seg hleaf_json
         (mleaf_ok : mleaf -> bool) (hleaf_ok : hleaf -> bool) mleaf_parse hleaf_parse,
    (forall x, mleaf_ok x = true -> mleaf_parse (mleaf_name x) (mleaf_seg x) = Some (mleaf_json x)) ->
    (forall x, exists args hb body, mleaf_seg x = Seg (mleaf_name x :: args) hb body) ->
    (forall x, mleaf_name x <> "not") ->
    (forall x, seg_wf (mleaf_seg x) = true) ->
    (forall x, hleaf_ok x = true -> hleaf_parse (hleaf_name x) (hleaf_seg x) = Some (hleaf_json x)) ->
    (forall x, exists args hb body, hleaf_seg x = Seg (hleaf_name x :: args) hb body) ->
    (forall x, hleaf_name x <> "tee" /\ hleaf_name x <> "subroute") ->
    (forall x, exists l, hleaf_json x = JObj l) ->
    (forall x, seg_wf (hleaf_seg x) = true) ->
    forall c : config mleaf hleaf,
      config_ok mleaf hleaf mleaf_name mleaf_ok hleaf_ok c = true ->
      adapt mleaf_parse hleaf_parse (print_caddyfile mleaf hleaf mleaf_seg hleaf_seg c) =
      Some (to_json mleaf hleaf mleaf_name mleaf_json hleaf_name hleaf_json c).
Proof. exact adapt_structural_gen. Qed.

(* instantiated with the proved leaves of caddy-l4 *)
Theorem C15_adapt_structural_l4_partial : forall cfg,
  config_ok_proved cfg = true -> adapt_l4 (print_l4 cfg) = Some (to_json_l4 cfg).
Proof. exact adapt_structural_l4. Qed.

(* listener-wrapper form *)
Theorem C15_adapt_structural_lw_partial : forall rb others sites,
  rblock_ok_proved rb = true -> forallb seg_wf others = true -> forallb seg_wf sites = true ->
  forallb (fun s => negb (is_layer4 s)) others = true ->
  adapt_lw_l4 (print_lw_l4 rb others sites) = Some [lw_json_l4 rb].
Proof. exact adapt_lw_structural_l4. Qed.

Theorem C15_adapt_deterministic : forall ts j1 j2, adapt_l4 ts = Some j1 -> adapt_l4 ts = Some j2 -> j1 = j2.
Proof. exact adapt_deterministic_l4. Qed.

(* the layout choices the grammar leaves open (inline or block matcher sets, inline or block "not")
   do not change the adapted JSON *)
Theorem C15_adapt_respects_stated_json : forall c1 c2,
  config_ok_proved c1 = true -> config_ok_proved c2 = true -> to_json_l4 c1 = to_json_l4 c2 ->
  adapt_l4 (print_l4 c1) = adapt_l4 (print_l4 c2).
Proof. exact adapt_respects_json. Qed.

(* leaf equations: every proved matcher / handler module *)
Theorem C15_matcher_leaves : forall x, mleaf_proved x = true ->
  mleaf_parse (mleaf_name x) (mleaf_seg x) = Some (mleaf_json x).
Proof. exact mleaf_eq_proved. Qed.
Theorem C15_handler_leaves : forall x, hleaf_proved x = true ->
  hleaf_parse (hleaf_name x) (hleaf_seg x) = Some (hleaf_json x).
Proof. exact hleaf_eq_proved. Qed.

(* repeated list options append: an appending option written on several lines, each with one or more
   values, yields the concatenation of the values in line order (the model's reading of every
   "x = append(x, d.RemainingArgs()...)" option) *)
Theorem C15_repeated_list_options_append : forall k L (ls : list (list string)),
  occurrences k L = ls -> forallb (fun l => negb (is_nil l)) ls = true -> multi k L = Some (List.concat ls).
Proof. exact multi_occ_lines. Qed.
(* cert_selection: all_tags / any_tag / serial_number / subject_organization, each on any number of lines *)
Theorem C15_cert_selection_lines_accumulate : forall cs,
  forallb (fun l => negb (is_nil l)) (cs_all_tags cs) && forallb (fun l => negb (is_nil l)) (cs_any_tag cs) &&
  forallb (fun l => negb (is_nil l)) (cs_serials cs) && forallb (fun l => negb (is_nil l)) (cs_orgs cs) = true ->
  parse_cert_sel (blockL "cert_selection" [] (cert_sel_fields cs)) = Some (cert_sel_json cs).
Proof. exact cert_sel_eq. Qed.

(* value syntax *)
Theorem C15_duration_roundtrip : forall d, dur_ok d = true -> parse_duration (print_dur d) = Some (dur_ns d).
Proof. exact parse_print_dur. Qed.
Theorem C15_uint_roundtrip : forall bits n, (n <? 2 ^ bits)%N = true -> parse_uint bits (print_N n) = Some n.
Proof. exact parse_uint_print. Qed.
Theorem C15_int32_roundtrip : forall z, (- 2147483648 <=? z)%Z && (z <? 2147483648)%Z = true ->
  parse_int 32 (print_Z z) = Some z.
Proof. exact parse_int_print. Qed.

(* array-shaped matcher "not": marshal (unmarshal j) = j and unmarshal (marshal s) = s *)
Theorem C15_json_roundtrip_not : forall j, sets_json_wf j = true ->
  exists sets, not_unmarshal j = Some sets /\ not_marshal sets = j.
Proof. exact not_json_roundtrip. Qed.
Theorem C15_struct_roundtrip_not : forall sets, forallb keys_sorted sets = true ->
  not_unmarshal (not_marshal sets) = Some sets.
Proof. exact not_struct_roundtrip. Qed.

(* the object-shaped raw encodings of the tls / quic matchers (a caddy.ModuleMap) and the array-shaped one
   of the http matcher (caddyhttp.RawMatcherSets): marshal (unmarshal j) = j and back *)
Theorem C15_json_roundtrip_tls_quic : forall j,
  match j with JObj m => keys_sorted m | _ => false end = true ->
  exists m, tls_unmarshal j = Some m /\ tls_marshal m = j.
Proof. exact tls_json_roundtrip. Qed.
Theorem C15_struct_roundtrip_tls_quic : forall m, keys_sorted m = true -> tls_unmarshal (tls_marshal m) = Some m.
Proof. exact tls_struct_roundtrip. Qed.
Theorem C15_json_roundtrip_http : forall j, sets_json_wf j = true ->
  exists sets, http_unmarshal j = Some sets /\ http_marshal sets = j.
Proof. exact not_json_roundtrip. Qed.
Theorem C15_struct_roundtrip_http : forall sets, forallb keys_sorted sets = true ->
  http_unmarshal (http_marshal sets) = Some sets.
Proof. exact not_struct_roundtrip. Qed.

(* several global "layer4" blocks are merged in source order: the i-th server of the file, counting
   through the blocks in order, is the one the adapted JSON holds under "srv<i>"; the grouping of the
   servers into blocks is irrelevant *)
Theorem C15_server_numbering : forall (c : configT) i s,
  config_ok_proved c = true -> nth_error (List.concat c) i = Some s ->
  exists j, adapt_l4 (print_l4 c) = Some j /\ adapted_server j (N.of_nat i) = Some (server_json_l4 s).
Proof. exact server_numbering_l4. Qed.
Theorem C15_blocks_merge : forall c1 c2 : configT,
  config_ok_proved c1 = true -> config_ok_proved c2 = true -> List.concat c1 = List.concat c2 ->
  adapt_l4 (print_l4 c1) = adapt_l4 (print_l4 c2).
Proof. exact blocks_merge_l4. Qed.

(* ---- non-vacuity: a configuration with named matcher sets (inline, block, not), a nested
   subroute with its own set, a tee, two servers in two global blocks *)
Definition ex_cfg : configT :=
  [[Server [":443"; "[::]:8443"]
      (RBlock (Some (Dur 5 Us))
         [("@a", true, [MNot true [MLeaf (MRemoteIP [RCidr "10.0.0.0/8"; RPrivate])]]);
          ("@b", false, [MLeaf MSsh; MLeaf (MSocks4 ["CONNECT"] [] [1080%N])])]
         [(["@a"; "@b"],
           [HLeaf (HProxyProtocol [RCidr "192.168.0.0/16"] (Some (Dur 2 Us)));
            HSubroute None
              [("@w", true, [MLeaf (MWireguard (Some 7%N))])]
              [(["@w"], [HTee [HLeaf HEcho];
                         HLeaf (HProxy (Proxy ["udp/localhost:51820"] [] None None None None None None
                                              (Some (PRandomChoose (Some 2%Z))) None None None))]);
               ([], [HLeaf HEcho])]])])];
   [Server ["udp/:53"] (RBlock None [] [([], [HLeaf (HThrottle (Some (Dur 10 Ums)) (Some 1024%Z) None None None)])])]].

Example C15_nonvacuous :
  config_ok_proved ex_cfg = true /\
  adapt_l4 (print_l4 ex_cfg) = Some (to_json_l4 ex_cfg) /\
  List.length (print_l4 ex_cfg) = 125%nat.
Proof. vm_compute. repeat split. Qed.

(* tls / quic / http matchers, a tls handler with connection policies, a decimal throttle rate *)
Definition ex_cfg2 : configT :=
  [[Server [":8443"]
      (RBlock None
         [("@t", false, [MLeaf (MTls false false [TSni ["example.com"]; TRemoteIP [(true, RPrivate); (false, RCidr "10.0.0.0/8")]])]);
          ("@h", true, [MLeaf (MHttp false [HmSimple (HkHost, ["example.com"]); HmNot true [(HkPath, ["/admin*"])]])]);
          ("@q", true, [MLeaf (MTls true true [TAlpn ["h3"]])])]
         [(["@t"], [HLeaf (HTls [ConnPolicy ["h2"] [] ["x25519"] (Some "example.com") false None None ["tls1.2"; "tls1.3"]
                                    (Some (true, [TLocalIP [RPrivate]]))
                                    (Some (CertSel [["a"; "b"]; ["c"]] [] [[1001%N; 1002%N]; [1004%N]] [["Org"]]))]);
                    HLeaf (HThrottle None None (Some (RDec 1 "5")) None (Some (RInt 100)));
                    HLeaf HEcho]);
          (["@h"; "@q"], [HLeaf HEcho])])]].
Example C15_nonvacuous2 :
  config_ok_proved ex_cfg2 = true /\ adapt_l4 (print_l4 ex_cfg2) = Some (to_json_l4 ex_cfg2) /\
  adapted_server (to_json_l4 ex_cfg) 1 = Some (server_json_l4 (Server ["udp/:53"]
     (RBlock None [] [([], [HLeaf (HThrottle (Some (Dur 10 Ums)) (Some 1024%Z) None None None)])]))).
Proof. vm_compute. repeat split. Qed.

(* the model rejects what the adapter rejects: duplicate set name, undefined reference *)
Example C15_rejects_duplicate_set :
  adapt_l4 [LB; NL; W "layer4"; LB; NL; W ":1"; LB; NL; W "@a"; W "ssh"; NL; W "@a"; W "xmpp"; NL;
            RB; NL; RB; NL; RB; NL] = None.
Proof. vm_compute. reflexivity. Qed.
Example C15_rejects_undefined_set :
  adapt_l4 [LB; NL; W "layer4"; LB; NL; W ":1"; LB; NL; W "route"; W "@zz"; LB; NL; W "echo"; NL; RB; NL;
            RB; NL; RB; NL; RB; NL] = None.
Proof. vm_compute. reflexivity. Qed.

Print Assumptions C15_tokens_roundtrip.
Print Assumptions C15_adapt_structural_partial.
Print Assumptions C15_adapt_structural_l4_partial.
Print Assumptions C15_adapt_structural_lw_partial.
Print Assumptions C15_adapt_deterministic.
Print Assumptions C15_adapt_respects_stated_json.
Print Assumptions C15_matcher_leaves.
Print Assumptions C15_handler_leaves.
Print Assumptions C15_duration_roundtrip.
Print Assumptions C15_uint_roundtrip.
Print Assumptions C15_int32_roundtrip.
Print Assumptions C15_json_roundtrip_not.
Print Assumptions C15_struct_roundtrip_not.
Print Assumptions C15_nonvacuous.
Print Assumptions C15_json_roundtrip_tls_quic.
Print Assumptions C15_struct_roundtrip_tls_quic.
Print Assumptions C15_json_roundtrip_http.
Print Assumptions C15_struct_roundtrip_http.
Print Assumptions C15_server_numbering.
Print Assumptions C15_blocks_merge.
Print Assumptions C15_nonvacuous2.
Print Assumptions C15_repeated_list_options_append.
Print Assumptions C15_cert_selection_lines_accumulate.
