(* C04 (WireGuard, Winbox, RDP part) - no input makes the matchers or their FromBytes parsers
   panic; the buffers they allocate are bounded.  Property theorems only (lemmas: proofs/Codec*Proofs.v). *)
From Coq Require Import List ZArith NArith Bool.
From Coq.Strings Require Import Byte.
From L4.gen Require Import Consts.
From L4.model Require Import GoBase CodecBase CodecWireGuard CodecWinbox CodecRdp.
From L4.proofs Require Import CodecWireGuardProofs CodecRdpCodecProofs CodecRdpMatchProofs CodecWinboxProofs.
Import ListNotations.
Local Open Scope nat_scope.

(* matchers: every configuration (user regular expressions are arbitrary functions), every prefix *)
Theorem C04_wireguard_never_panics : forall zero p, wg_match zero p <> Panic.
Proof. exact wg_match_no_panic. Qed.
Theorem C04_winbox_never_panics : forall c, never_panics (wb_match c).
Proof. exact wb_match_no_panic. Qed.
Theorem C04_rdp_never_panics : forall c, never_panics (rdp_match c).
Proof. exact rdp_match_no_panic. Qed.

(* exported parsers called on arbitrary byte strings / chunk lists *)
Theorem C04_wg_initiation_from_bytes_never_panics : forall b, init_from_bytes b <> RPanic.
Proof. exact init_no_panic. Qed.
Theorem C04_wg_transport_from_bytes_never_panics : forall b, transport_from_bytes b <> RPanic.
Proof. exact transport_no_panic. Qed.
Theorem C04_winbox_from_bytes_never_panics : forall b, auth_from_bytes b <> RPanic.
Proof. exact auth_from_bytes_no_panic. Qed.
Theorem C04_winbox_from_chunks_never_panics : forall cs, auth_from_chunks cs <> RPanic.
Proof. exact auth_from_chunks_no_panic. Qed.
Theorem C04_rdp_tpkt_from_bytes_never_panics : forall b, tpkt_from_bytes b <> RPanic.
Proof. exact tpkt_no_panic. Qed.
Theorem C04_rdp_x224_from_bytes_never_panics : forall b, x224_from_bytes b <> RPanic.
Proof. exact x224_no_panic. Qed.
Theorem C04_rdp_negreq_from_bytes_never_panics : forall b, negreq_from_bytes b <> RPanic.
Proof. exact negreq_no_panic. Qed.
Theorem C04_rdp_corrinfo_from_bytes_never_panics : forall b, corr_from_bytes b <> RPanic.
Proof. exact corr_no_panic. Qed.
Theorem C04_rdp_token_from_bytes_never_panics : forall b, token_from_bytes b <> RPanic.
Proof. exact token_no_panic. Qed.

(* allocation: the make() sizes of one Match call stay below 16 x MaxMatchingBytes for every input *)
Theorem C04_wireguard_alloc_bounded : forall p, (wg_alloc p <= 16 * Z.to_N layer4_MaxMatchingBytes)%N.
Proof. exact wg_alloc_bounded16. Qed.
Theorem C04_winbox_alloc_bounded : forall p, (wb_alloc p <= 16 * Z.to_N layer4_MaxMatchingBytes)%N.
Proof. exact wb_alloc_bounded. Qed.
Theorem C04_rdp_alloc_bounded : forall p, (rdp_alloc p <= 16 * Z.to_N layer4_MaxMatchingBytes)%N.
Proof. exact rdp_alloc_bounded. Qed.
Theorem C04_rdp_payload_below_64k : forall hdr x plen, rdp_header hdr = HOk x plen -> 0 < plen /\ (N.of_nat plen < two16)%N.
Proof. exact rdp_header_plen. Qed.

(* non-vacuity: the inputs that used to crash the matchers are answered No / More now *)
Example C04_former_crashers :
  let c0 := {| rc_hash := []; rc_hash_rx := None; rc_ips := []; rc_ports := []; rc_info := []; rc_info_rx := None |} in
  let w0 := {| wc_std := true; wc_romon := true; wc_user := []; wc_rx := None |} in
  rdp_match c0 [x03; x00; x00; x0c; x07; xe0; x00; x00; x00; x00; x00; x0d] = No /\
  wb_match w0 ([xff; x06] ++ repeat x61 255) = More /\
  wb_match w0 ([x23; x06] ++ repeat x61 34 ++ [x00]) = No /\
  auth_from_bytes ([xff; x06] ++ repeat x61 255) = Err.
Proof. vm_compute. repeat split. Qed.

Print Assumptions C04_wireguard_never_panics.
Print Assumptions C04_winbox_never_panics.
Print Assumptions C04_rdp_never_panics.
Print Assumptions C04_wg_initiation_from_bytes_never_panics.
Print Assumptions C04_wg_transport_from_bytes_never_panics.
Print Assumptions C04_winbox_from_bytes_never_panics.
Print Assumptions C04_winbox_from_chunks_never_panics.
Print Assumptions C04_rdp_tpkt_from_bytes_never_panics.
Print Assumptions C04_rdp_x224_from_bytes_never_panics.
Print Assumptions C04_rdp_negreq_from_bytes_never_panics.
Print Assumptions C04_rdp_corrinfo_from_bytes_never_panics.
Print Assumptions C04_rdp_token_from_bytes_never_panics.
Print Assumptions C04_wireguard_alloc_bounded.
Print Assumptions C04_winbox_alloc_bounded.
Print Assumptions C04_rdp_alloc_bounded.
Print Assumptions C04_rdp_payload_below_64k.
Print Assumptions C04_former_crashers.
