(* C16 - The SOCKS5 handler serves only enabled commands and only authenticated clients.
   Property theorems only; every proof is [exact <lemma>] (lemmas: proofs/Socks5Proofs.v).

   [repl] is the placeholder replacer and [upper] strings.ToUpper: the theorems hold for every
   pair of functions.  [e] is the environment (what DNS, dial and listen answer): arbitrary.
   [inp] is everything the client ever sends. *)
From Coq Require Import List ZArith NArith Bool String.
Open Scope string_scope.
Open Scope list_scope.
From Coq.Strings Require Import Byte.
From L4 Require Import Hex.
From L4.model Require Import GoBase Socks5.
From L4.proofs Require Import Socks5Proofs.
Import ListNotations.

(* a Dial / ListenUDP event is preceded by a successful authentication with a configured
   username/password (whenever any credential is configured), and the command that causes it
   (1 CONNECT for Dial, 3 UDP ASSOCIATE for ListenUDP) is enabled by the configuration *)
Theorem C16_no_outbound_unless_authorised : forall repl upper c srv e inp evs fin pre ev post,
  provision repl upper c = Some srv ->
  serve srv e inp = (evs, fin) -> evs = pre ++ ev :: post -> outbound ev = true ->
  (credentials c <> [] -> exists u p, In (AuthOK u p) pre /\ configured_cred repl c u p) /\
  (forall ip port, ev = Dial ip port -> cmd_enabled repl upper c 1) /\
  (forall ip port, ev = ListenUDP ip port -> cmd_enabled repl upper c 3).
Proof. exact no_outbound_unless_authorised. Qed.

(* the same for DNS lookups (they precede the rule check in the library) *)
Theorem C16_resolve_only_after_auth : forall repl upper c srv e inp evs fin pre fqdn post,
  provision repl upper c = Some srv ->
  serve srv e inp = (evs, fin) -> evs = pre ++ Resolve fqdn :: post ->
  credentials c <> [] -> exists u p, In (AuthOK u p) pre /\ configured_cred repl c u p.
Proof. exact resolve_only_after_auth. Qed.

(* a session in which the server sent a refusal (no acceptable method, authentication failure,
   rule failure, command / address type not supported) contains no outbound action at all *)
Theorem C16_refused_has_no_outbound : forall srv e inp evs fin b,
  serve srv e inp = (evs, fin) -> In (Out b) evs -> refusal b -> no_outbound evs.
Proof. exact refused_has_no_outbound. Qed.

(* client bytes are relayed only after the dial / listen of the same session *)
Theorem C16_relay_needs_outbound : forall srv e inp evs fin,
  serve srv e inp = (evs, fin) ->
  match fin with
  | EProxy _ => exists ip port, In (Dial ip port) evs
  | EAssoc => exists ip port, In (ListenUDP ip port) evs
  | _ => True
  end.
Proof. exact relay_needs_outbound. Qed.

(* every path of the request phase: nothing written and the connection closed (truncated message
   or wrong version), or a failure reply last and nothing relayed, or a success reply last *)
Theorem C16_request_ends_with_reply_or_close : forall srv e inp evs fin,
  request srv e inp = (evs, fin) ->
  (evs = [] /\ fin = EErr) \/
  (exists pre c, evs = pre ++ [Out (reply_fail c)] /\ (fin = EErr \/ fin = EDone)) \/
  (exists pre v6, evs = pre ++ [Out (reply_ok v6)] /\ ((exists r, fin = EProxy r) \/ fin = EAssoc)).
Proof. exact request_ends. Qed.

(* a complete IPv4 request for a command the rule set does not allow gets exactly one failure
   reply (02 not allowed / 07 command not supported) and nothing else happens *)
Theorem C16_disallowed_is_answered : forall srv e ver cmdb rsv a p1 p2 rest evs fin,
  zb ver = 5%Z -> allow (srule srv) (zb cmdb) = false ->
  request srv e (ver :: cmdb :: rsv :: x01 :: a ++ [p1; p2] ++ rest) = (evs, fin) -> List.length a = 4%nat ->
  exists c, evs = [Out (reply_fail c)] /\ fin = EErr /\ (c = x02 \/ c = x07).
Proof. exact disallowed_is_answered. Qed.

(* configuring any credential entry - even one whose name expands to nothing and is dropped -
   switches "no authentication" off for good: the method reply 05 00 is never sent *)
Theorem C16_no_noauth_when_credentials : forall repl upper c srv inp evs r,
  provision repl upper c = Some srv -> credentials c <> [] ->
  negotiate srv inp = (evs, r) -> ~ In (Out [x05; x00]) evs.
Proof. exact no_noauth_when_credentials. Qed.

(* ---- non-vacuity: credentials {"alice": "{env.PW}"} with PW = "s3cret", commands ["connect"] *)
Definition ex_get (k : bytes) : option bytes := assoc k [(unhex "656e762e5057", unhex "733363726574")].
Definition ex_cfg : config :=
  {| commands := [unhex "636f6e6e656374"];
     credentials := [(unhex "616c696365", unhex "7b656e762e50577d"); (unhex "", unhex "78")] |}.
Definition ex_env : env :=
  {| resolve := fun _ => None; dial := fun _ _ => DialOK false; listen_udp := Some true; client_ip := Some (unhex "7f000001") |}.
(* 05 01 02 | 01 05 alice 06 s3cret | 05 01 00 01 7f000001 1f90 | "hi" *)
Definition ex_valid : bytes := unhex "0501020105616c6963650673336372657405010001" ++ unhex "7f0000011f906869".
(* same with password "s3cres" *)
Definition ex_wrongpw : bytes := unhex "0501020105616c6963650673336372657305010001" ++ unhex "7f0000011f906869".
(* authenticated, UDP ASSOCIATE (not enabled) *)
Definition ex_assoc : bytes := unhex "0501020105616c6963650673336372657405030001" ++ unhex "7f0000011f90".
(* offers only "no authentication" *)
Definition ex_noauth : bytes := unhex "05010005010001" ++ unhex "7f0000011f90".

Example C16_nonvacuous :
  exists srv, provision (replace_all ex_get) ascii_upper ex_cfg = Some srv /\
    srule srv = {| en_connect := true; en_bind := false; en_assoc := false |} /\
    sauth srv = [UserPass [(unhex "616c696365", unhex "733363726574")]] /\
    serve srv ex_env ex_valid =
      ([Out [x05; x02]; AuthOK (unhex "616c696365") (unhex "733363726574"); Out [x01; x00];
        Dial (unhex "7f000001") 8080; Out (reply_ok false)], EProxy (unhex "6869")) /\
    serve srv ex_env ex_wrongpw = ([Out [x05; x02]; Out [x01; x01]], EErr) /\
    serve srv ex_env ex_assoc =
      ([Out [x05; x02]; AuthOK (unhex "616c696365") (unhex "733363726574"); Out [x01; x00]; Out (reply_fail x02)], EErr) /\
    serve srv ex_env ex_noauth = ([Out [x05; xff]], EErr).
Proof. eexists. split; [vm_compute; reflexivity|]. vm_compute. repeat split. Qed.

(* ---- the UDP relay after a successful UDP ASSOCIATE.  RFC 1928 section 7: the relay MUST drop
   datagrams from any source IP other than the one recorded for the association.  The library
   compares the source with the address the client announced and accepts every source when that
   is 0.0.0.0:0 (what clients normally send); the handler's associateSourceRewriter (added by a
   fix: commit found by this check) pins such associations to the client's own IP.  Whenever the
   client's IP is known, a forwarded datagram comes from the one IP the association is pinned to. *)
Theorem C16_udp_relay_source_pinned : forall srv e inp evs fin cip dip dport sip sport,
  client_ip e = Some cip -> cip <> [] -> ip_unspecified cip = false ->
  serve srv e inp = (evs, fin) -> In (ListenUDP dip dport) evs ->
  relay_accepts dip dport sip sport = true ->
  ip_unspecified dip = false /\ ip_equal dip sip = true.
Proof. exact udp_relay_source_pinned. Qed.

(* the pinning does not depend on the zone of the client's address (fe80::1%eth0 is pinned to fe80::1) *)
Theorem C16_zoned_client_is_pinned : forall ip zone dst,
  ip <> [] -> ip_unspecified ip = false -> (dst = [] \/ ip_unspecified dst = true) ->
  rewrite (CTcp ip zone) 3 dst = ip.
Proof. exact zoned_client_is_pinned. Qed.

(* non-vacuity: an authenticated client at 127.0.0.1 announcing 0.0.0.0:0 gets a relay pinned to
   127.0.0.1; a datagram from 192.0.2.2:5353 is not accepted, one from 127.0.0.1:40001 is *)
Definition ex_cfg_assoc : config :=
  {| commands := [unhex "636f6e6e656374"; unhex "6173736f6369617465"]; credentials := credentials ex_cfg |}.
Definition ex_assoc_any : bytes := unhex "0501020105616c6963650673336372657405030001" ++ unhex "000000000000".
Example C16_udp_relay_pinned_example :
  exists srv evs,
    provision (replace_all ex_get) ascii_upper ex_cfg_assoc = Some srv /\
    serve srv ex_env ex_assoc_any = (evs, EAssoc) /\
    In (ListenUDP (unhex "7f000001") 0%Z) evs /\
    relay_accepts (unhex "7f000001") 0%Z (unhex "c0000202") 5353%Z = false /\
    relay_accepts (unhex "7f000001") 0%Z (unhex "7f000001") 40001%Z = true /\
    relay_accepts (unhex "00000000") 0%Z (unhex "c0000202") 5353%Z = true.
Proof. eexists. eexists. split; [vm_compute; reflexivity|]. split; [vm_compute; reflexivity|]. vm_compute. auto 10. Qed.

(* observation (not counted as a violation: the property speaks of connections and listeners): the
   library resolves a domain name before it consults the rule set, so an authenticated client can
   make the server look up names with a command that is not enabled; here UDP ASSOCIATE (disabled)
   for "a.b": the lookup happens, then the request is refused with 02 *)
Definition ex_env_dns : env :=
  {| resolve := fun _ => Some (unhex "7f000001"); dial := fun _ _ => DialOK false; listen_udp := Some true; client_ip := Some (unhex "7f000001") |}.
Definition ex_assoc_name : bytes := unhex "0501020105616c6963650673336372657405030003" ++ unhex "03612e621f90".
Example C16_resolve_precedes_rule_check :
  exists srv, provision (replace_all ex_get) ascii_upper ex_cfg = Some srv /\
    serve srv ex_env_dns ex_assoc_name =
      ([Out [x05; x02]; AuthOK (unhex "616c696365") (unhex "733363726574"); Out [x01; x00];
        Resolve (unhex "612e62"); Out (reply_fail x02)], EErr).
Proof. eexists. split; [vm_compute; reflexivity|]. vm_compute. reflexivity. Qed.

Print Assumptions C16_no_outbound_unless_authorised.
Print Assumptions C16_resolve_precedes_rule_check.
Print Assumptions C16_udp_relay_source_pinned.
Print Assumptions C16_zoned_client_is_pinned.
Print Assumptions C16_udp_relay_pinned_example.
Print Assumptions C16_resolve_only_after_auth.
Print Assumptions C16_refused_has_no_outbound.
Print Assumptions C16_relay_needs_outbound.
Print Assumptions C16_request_ends_with_reply_or_close.
Print Assumptions C16_disallowed_is_answered.
Print Assumptions C16_no_noauth_when_credentials.
Print Assumptions C16_nonvacuous.
