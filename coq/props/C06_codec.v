(* C06 (RDP and Winbox stream matchers) - a No is final, fragments of a matching message are never
   rejected, the verdict is a function of the prefetched bytes.  Property theorems only
   (lemmas: proofs/CodecRdpMatchProofs.v, proofs/CodecWinboxProofs.v).

   The models are functions  cfg -> list byte -> verdict  of the bytes prefetched so far (every read
   of the matchers goes through read_full / read_at_least on that list), so determinism and
   "never reads from the network" hold by construction of the model; the engine checks them on the
   implementation (socket-read counter, re-reading the stream, evaluating twice). *)
From Coq Require Import List ZArith NArith Bool.
From Coq.Strings Require Import Byte.
From L4.gen Require Import Consts.
From L4.model Require Import GoBase CodecBase CodecWinbox CodecRdp.
From L4.proofs Require Import CodecRdpMatchProofs CodecWinboxProofs CodecWinboxStableProofs.
Import ListNotations.
Local Open Scope nat_scope.

(* ---- RDP: every configuration, every stream ---- *)
Theorem C06_rdp_no_stable : forall c, no_stable (rdp_match c).
Proof. exact rdp_no_stable. Qed.
Theorem C06_rdp_yes_not_rejected_on_prefix : forall c, yes_not_rejected_on_prefix (rdp_match c).
Proof. exact rdp_yes_not_rejected. Qed.
(* stronger: on every proper prefix of a request that matches, the matcher asks for more data *)
Theorem C06_rdp_proper_prefix_asks_for_more : forall c w p s, w = p ++ s -> s <> [] -> rdp_match c w = Yes -> rdp_match c p = More.
Proof. exact rdp_prefix_more. Qed.

(* ---- Winbox ---- *)
(* every configuration, every stream (any number of chunks): a No is final, and so no prefix of a message that
   matches is answered No.  The induction goes through FromBytes/FromChunks on the extended input: an accepted
   message has the exact length its chunk headers announce, and if the first stride alone is a complete message
   nothing longer parses (the key would be too long). *)
Theorem C06_winbox_no_stable : forall c, no_stable (wb_match c).
Proof. exact wb_no_stable. Qed.
Theorem C06_winbox_yes_not_rejected_on_prefix : forall c, yes_not_rejected_on_prefix (wb_match c).
Proof. exact wb_yes_not_rejected. Qed.
(* the ingredients, also of interest for C18: no message is a proper prefix of a longer one *)
Theorem C06_winbox_first_stride_excludes_longer : forall b m1, wb_stride < length b ->
  auth_from_bytes (firstn wb_stride b) = Ok m1 -> forall m, auth_from_bytes b <> Ok m.
Proof. exact first_stride_excludes_longer. Qed.
Theorem C06_winbox_two_chunk_length : forall b m l2, auth_from_bytes b = Ok m -> wb_stride < length b <= 2 * wb_stride ->
  nth_error b wb_stride = Some l2 -> length b = wb_stride + 2 + N.to_nat (bN l2).
Proof. exact from_bytes_two_chunk_length. Qed.

(* the special case proved first, kept: streams whose first chunk is not full (first length byte <> 255, i.e. user names up to 220
   bytes); for two-chunk messages the verdict chain is checked on every prefix by the engine (oracle
   C06:winbox:no-then-not-no) - what is missing here is the induction through FromBytes on the extended input *)
Theorem C06_winbox_no_stable_partial : forall c p s, wb_first_len p <> wb_chunk_max -> wb_match c p = No -> wb_match c (p ++ s) = No.
Proof. exact wb_no_stable_single. Qed.

(* non-vacuity and the repaired two-chunk case on a concrete message: 230-byte user name, 268 bytes *)
Definition w0 := {| wc_std := true; wc_romon := true; wc_user := []; wc_rx := None |}.
Definition two_chunk_msg : list byte := auth_to_bytes {| ma_parity := x01; ma_key := repeat x07 32; ma_user := repeat x61 230 |}.
Example C06_winbox_two_chunk_prefixes :
  length two_chunk_msg = 268 /\ wb_match w0 two_chunk_msg = Yes /\
  forallb (fun n => verdict_eqb (wb_match w0 (firstn n two_chunk_msg)) More) (seq 0 268) = true /\
  wb_match w0 (two_chunk_msg ++ [x00]) = No.
Proof. vm_compute. repeat split. Qed.
Definition c0 := {| rc_hash := []; rc_hash_rx := None; rc_ips := []; rc_ports := []; rc_info := []; rc_info_rx := None |}.
Definition rdp_msg : list byte :=
  [x03; x00; x00; x2a; x25; xe0; x00; x00; x00; x00; x00] ++
  [x43; x6f; x6f; x6b; x69; x65; x3a; x20; x6d; x73; x74; x73; x68; x61; x73; x68; x3d; x61; x62; x63; x64; x0d; x0a] ++
  [x01; x00; x08; x00; x03; x00; x00; x00].
Example C06_rdp_nonvacuous :
  rdp_match c0 rdp_msg = Yes /\ rdp_match c0 (firstn 20 rdp_msg) = More /\ rdp_match c0 (rdp_msg ++ [x00]) = No /\
  rdp_match c0 [x03; x01; x00; x2a; x25; xe0; x00; x00; x00; x00; x00] = No.
Proof. vm_compute. repeat split. Qed.

Print Assumptions C06_rdp_no_stable.
Print Assumptions C06_rdp_yes_not_rejected_on_prefix.
Print Assumptions C06_rdp_proper_prefix_asks_for_more.
Print Assumptions C06_winbox_no_stable.
Print Assumptions C06_winbox_yes_not_rejected_on_prefix.
Print Assumptions C06_winbox_first_stride_excludes_longer.
Print Assumptions C06_winbox_two_chunk_length.
Print Assumptions C06_winbox_no_stable_partial.
Print Assumptions C06_winbox_two_chunk_prefixes.
Print Assumptions C06_rdp_nonvacuous.
