(* C06 (OpenVPN and DNS, TCP stream forms) - the verdict is a function of the prefix; a No stays No on every
   longer prefix; a message that matches whole is never rejected on a fragment; the mutable lastDigest field of
   MatchOpenVPN does not influence the verdict.  Property theorems only.
   (That Match does not read from the network and leaves the stream intact is C01/C06's Conn-level theorem; here
   it is observed directly by the engines: socket read counter and read-back after Match.) *)
From Coq Require Import List NArith ZArith Bool Arith.
From Coq.Strings Require Import Byte.
From L4.model Require Import GoBase CodecOpenVpn MatchOpenVpn MatchDns.
From L4.proofs Require Import MatchOpenVpnProofs MatchDnsProofs.
From L4.props Require Import C04_ovpn_dns.
Import ListNotations.

Theorem C06_openvpn_tcp_no_stable : forall hmac aes now c ld, no_stable (fun p => fst (ovpn_match hmac aes now c ld true p)).
Proof. exact ovpn_tcp_no_stable. Qed.
Theorem C06_openvpn_tcp_fragments_not_rejected : forall hmac aes now c ld,
  yes_not_rejected_on_prefix (fun p => fst (ovpn_match hmac aes now c ld true p)).
Proof. exact ovpn_tcp_yes_not_rejected. Qed.
(* a matching stream is exactly one frame: length prefix, header byte, body of the announced length *)
Theorem C06_openvpn_tcp_yes_is_one_frame : forall hmac aes now c ld w, fst (ovpn_match hmac aes now c ld true w) = Yes ->
  exists lb hb body, w = lb ++ hb ++ body /\ length lb = 2%nat /\ length hb = 1%nat /\
    N.to_nat (be_N lb) = (1 + length body)%nat /\ (plain_total <= 1 + length body <= crypt2_max)%nat.
Proof. exact ovpn_tcp_yes_exact. Qed.
(* determinism: the only mutable matcher state does not change the answer (TCP and UDP) *)
Theorem C06_openvpn_verdict_indep_of_lastDigest : forall hmac aes now c ld1 ld2 tcp p, cfg_wf c -> ld_ok ld1 -> ld_ok ld2 ->
  fst (ovpn_match hmac aes now c ld1 tcp p) = fst (ovpn_match hmac aes now c ld2 tcp p).
Proof. exact verdict_indep_of_lastDigest. Qed.

Theorem C06_dns_tcp_no_stable : forall unpack re c, no_stable (dns_match unpack re c true).
Proof. exact dns_tcp_no_stable. Qed.
Theorem C06_dns_tcp_fragments_not_rejected : forall unpack re c, yes_not_rejected_on_prefix (dns_match unpack re c true).
Proof. exact dns_tcp_yes_not_rejected. Qed.
(* stronger: every proper prefix of a matching stream is answered "need more" *)
Theorem C06_dns_tcp_fragments_ask_for_more : forall unpack re c p s, s <> [] ->
  dns_match unpack re c true (p ++ s) = Yes -> dns_match unpack re c true p = More.
Proof. exact dns_tcp_prefix_more. Qed.

(* bytes after a complete frame are always answered No (and by No-stability stay No) *)
Theorem C06_dns_tcp_trailing_bytes_rejected : forall unpack re c lb msg t,
  length lb = 2%nat -> be_N lb = N.of_nat (length msg) -> t <> [] -> dns_match unpack re c true (lb ++ msg ++ t) = No.
Proof. exact dns_tcp_trailing_no. Qed.

(* non-vacuity: a stream that matches whole, its prefixes ask for more, an extension is rejected and stays rejected *)
Definition ex_q : dnsmsg := {| d_len := 14; d_questions := [{| q_name := [x61]; q_class := Some [x49]; q_type := Some [x41] |}];
                              d_response := false; d_rcode := 0; d_zero := false |}.
Definition ex_dcfg : dcfg := {| allow := []; deny := []; default_deny := false; prefer_allow := false |}.
Example C06_ovpn_dns_nonvacuous :
  let um := fun _ : list byte => Some ex_q in
  let w := [x00; x0e] ++ repeat x00 14 in
  dns_match um (fun _ _ => true) ex_dcfg true w = Yes /\ dns_match um (fun _ _ => true) ex_dcfg true (firstn 9 w) = More /\
  dns_match um (fun _ _ => true) ex_dcfg true (w ++ [x00]) = No /\
  fst (ovpn_match (fun _ _ _ => []) (fun _ _ e => e) 0 ex_cfg None true ([x00; x0e; x38] ++ repeat x01 8 ++ repeat x00 5)) = Yes /\
  fst (ovpn_match (fun _ _ _ => []) (fun _ _ e => e) 0 ex_cfg None true ([x00; x0e; x38] ++ repeat x01 8 ++ repeat x00 6)) = No.
Proof. vm_compute. repeat split. Qed.

Print Assumptions C06_openvpn_tcp_no_stable.
Print Assumptions C06_openvpn_tcp_fragments_not_rejected.
Print Assumptions C06_openvpn_tcp_yes_is_one_frame.
Print Assumptions C06_openvpn_verdict_indep_of_lastDigest.
Print Assumptions C06_dns_tcp_no_stable.
Print Assumptions C06_dns_tcp_fragments_not_rejected.
Print Assumptions C06_dns_tcp_fragments_ask_for_more.
Print Assumptions C06_dns_tcp_trailing_bytes_rejected.
Print Assumptions C06_ovpn_dns_nonvacuous.
