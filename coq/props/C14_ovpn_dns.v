(* C14 (OpenVPN, DNS) - the matcher accepts exactly what the wire definition and the configured filters say.
   Property theorems only (lemmas: proofs/MatchOpenVpnProofs.v, proofs/MatchDnsProofs.v).

   DNS: the reference [dns_ref] is "the framed bytes unpack to a message whose canonical length is the framed
   length, which is a standard query (QR=0, RCODE=0, Z=0, at least one question) and whose questions pass the
   rule table [filter_spec]" - [filter_spec] is written from the option documentation, the matcher's loop with its
   early returns is proved equal to it.  Wire parsing is delegated (dns.Msg.Unpack is a universally quantified function).
   Question names are compared case-insensitively on ASCII letters (RFC 4343): the matcher lower-cases the name
   before the rules see it (literal name and name_regexp alike), and so does [question_spec].
   One deviation of today's code from the wire definition is outside these theorems because it sits in the
   delegated part and is a recorded finding: the canonical length is the uncompressed one (compressed queries are rejected).

   OpenVPN: framing + opcode + key id + length gates are given as an equation over a complete message (TCP and
   UDP), and the three attempts on a V2 body / the attempt on a V3 body are characterised by "some enabled mode
   parses the body (CodecOpenVpn, whose parsers are exact inverses of the encoders: C18) and the mode's field rules
   hold".  The per-mode rules with abstract HMAC/AES are the model's; hence [_partial] in the names below. *)
From Coq Require Import List NArith ZArith Bool Arith.
From Coq.Strings Require Import Byte.
From L4.model Require Import GoBase CodecOpenVpn MatchOpenVpn MatchDns.
From L4.proofs Require Import MatchOpenVpnProofs MatchDnsProofs.
From L4.props Require Import C04_ovpn_dns.
Import ListNotations.

(* ---- DNS ---- *)
Theorem C14_dns_rule_table_eq_spec : forall re c qs, has_rules c = true ->
  questions_loop re c qs = forallb (question_spec re c) qs.
Proof. exact questions_loop_spec. Qed.
Theorem C14_dns_rules_case_insensitive : forall re c n1 n2 cl ty, lower_ascii n1 = lower_ascii n2 ->
  question_spec re c {| q_name := n1; q_class := cl; q_type := ty |} = question_spec re c {| q_name := n2; q_class := cl; q_type := ty |}.
Proof. exact question_spec_case_insensitive. Qed.
Theorem C14_dns_tcp_match_iff_ref : forall unpack re c msg lb,
  length lb = 2%nat -> be_N lb = N.of_nat (length msg) ->
  (dns_match unpack re c true (lb ++ msg) = Yes <-> (dns_hdr <= length msg <= dns_max_msg)%nat /\ dns_ref unpack re c msg).
Proof. exact dns_tcp_match_iff_ref. Qed.
Theorem C14_dns_udp_match_iff_ref : forall unpack re c msg,
  (dns_match unpack re c false msg = Yes <-> (dns_hdr <= length msg <= dns_max_msg)%nat /\ dns_ref unpack re c msg).
Proof. exact dns_udp_match_iff_ref. Qed.

(* ---- OpenVPN ---- *)
Theorem C14_openvpn_tcp_decision_partial : forall hmac aes now c ld lb hb body h,
  length lb = 2%nat -> length hb = 1%nat -> be_N lb = N.of_nat (1 + length body) -> header_from_bytes hb = ROk h ->
  ovpn_match hmac aes now c ld true (lb ++ hb ++ body) =
    let l := (1 + length body)%nat in
    if (l <? plain_total)%nat || (crypt2_max <? l)%nat then (No, ld) else
    if (0 <? keyid h)%N then (No, ld) else
    if (opcode h =? op_v2)%N && (acc_plain c || acc_auth c || acc_crypt c) then
      (if (auth_max <? l)%nat then (No, ld) else try_v2 hmac aes now c ld body h)
    else if (opcode h =? op_v3)%N && acc_crypt2 c then
      (if (l <? crypt2_min)%nat then (No, ld) else try_v3 hmac aes now c ld body h)
    else (No, ld).
Proof. exact ovpn_tcp_framed. Qed.
Theorem C14_openvpn_udp_decision_partial : forall hmac aes now c ld hb body h,
  length hb = 1%nat -> header_from_bytes hb = ROk h -> (1 <= length body)%nat ->
  ovpn_match hmac aes now c ld false (hb ++ body) =
    if (0 <? keyid h)%N then (No, ld) else
    if (opcode h =? op_v2)%N && (acc_plain c || acc_auth c || acc_crypt c) then
      (if (length body <? plain_hl)%nat || (auth_max_hl <? length body)%nat then (No, ld) else try_v2 hmac aes now c ld body h)
    else if (opcode h =? op_v3)%N && acc_crypt2 c then
      (if (length body <? crypt2_min_hl)%nat || (crypt2_max_hl <? length body)%nat then (No, ld) else try_v3 hmac aes now c ld body h)
    else (No, ld).
Proof. exact ovpn_udp_framed. Qed.
Theorem C14_openvpn_v2_modes_iff_partial : forall hmac aes now c ld body h, cfg_wf c -> ld_ok ld ->
  (fst (try_v2 hmac aes now c ld body h) = Yes <->
     (acc_plain c = true /\ exists m, plain_from_headless body h = ROk m /\ plain_match (p_sid m) (p_prev m) (p_pid m) = true) \/
     (acc_auth c = true /\ exists m, auth_from_headless body h = ROk m /\ fst (auth_match hmac now c ld m) = BTrue) \/
     (acc_crypt c = true /\ exists m, crypt_from_headless body h = ROk m /\ crypt_match hmac aes now c m = BTrue)).
Proof. exact try_v2_iff. Qed.
Theorem C14_openvpn_v3_mode_iff_partial : forall hmac aes now c ld body h, cfg_wf c ->
  (fst (try_v3 hmac aes now c ld body h) = Yes <->
     exists m, crypt2_from_headless body h = ROk m /\ crypt2_match hmac aes now c m = BTrue).
Proof. exact try_v3_iff. Qed.

(* today's code accepts, in crypt mode, a tag that verifies under another 32-byte digest of its table although
   tls-crypt fixes HMAC-SHA256 (recorded finding C14:openvpn-crypt-foreign-digest:accepts-invalid): a model instance
   where only digest 10 (SHA3-256) produces the tag, SHA-256 (digest 4) does not, and the message matches *)
Definition sha3_only : nat -> list byte -> list byte -> list byte := fun d _ _ => if Nat.eqb d 10 then repeat x41 32 else [].
Definition ex_crypt : crypt := {| c_hdr := {| opcode := 7; keyid := 0 |}; c_sid := 1; c_rpid := 1; c_rts := 0;
                                  c_hmac := repeat x41 32; c_enc := repeat x00 5; c_prev := 0; c_pid := 0 |}.
Theorem C14_openvpn_crypt_sha256_only_refuted : exists hmac aes now c m,
  cfg_wf c /\ crypt_match hmac aes now c m = BTrue /\ (forall key pl, hmac digest_default key pl <> c_hmac m).
Proof.
  exists sha3_only, (fun _ _ e => e), 0%Z, ex_cfg, ex_crypt.
  split; [exact (proj1 C04_ovpn_dns_nonvacuous)|]. split; [vm_compute; reflexivity|]. intros key pl. vm_compute. discriminate.
Qed.

(* non-vacuity of the DNS reference and of the decision table: allow + deny + both flags *)
Definition r_name (n : list byte) : rule := {| r_class := []; r_class_re := []; r_name := n; r_name_re := []; r_type := []; r_type_re := [] |}.
Definition qn (n : list byte) : question := {| q_name := n; q_class := Some [x49]; q_type := Some [x41] |}.
Example C14_ovpn_dns_nonvacuous :
  let re := fun _ _ : list byte => true in
  let c := fun dd pa => {| allow := [r_name [x61]; r_name [x62]]; deny := [r_name [x62]; r_name [x63]]; default_deny := dd; prefer_allow := pa |} in
  (* a: allowed only; b: both; c: denied only; d: neither *)
  map (fun n => filter_spec re (c false false) [qn [n]]) [x61; x62; x63; x64] = [true; false; false; true] /\
  map (fun n => filter_spec re (c true true) [qn [n]]) [x61; x62; x63; x64] = [true; true; false; false] /\
  map (fun n => questions_loop re (c true true) [qn [n]]) [x61; x62; x63; x64] = [true; true; false; false] /\
  dns_match (fun _ => Some {| d_len := 14; d_questions := [qn [x61]]; d_response := false; d_rcode := 0; d_zero := false |}) re (c true false) false (repeat x00 14) = Yes /\
  dns_match (fun _ => Some {| d_len := 14; d_questions := [qn [x61]]; d_response := true; d_rcode := 0; d_zero := false |}) re (c true false) false (repeat x00 14) = No /\
  (* upper-case A, B, C, D get the same answers: a deny rule cannot be bypassed by changing case *)
  map (fun n => questions_loop re (c true true) [qn [n]]) [x41; x42; x43; x44] = [true; true; false; false] /\
  lower_ascii [x42; x4c; x6f; x2e; x5a; x40; x5b] = [x62; x6c; x6f; x2e; x7a; x40; x5b].
Proof. vm_compute. repeat split. Qed.

Print Assumptions C14_dns_rule_table_eq_spec.
Print Assumptions C14_dns_rules_case_insensitive.
Print Assumptions C14_dns_tcp_match_iff_ref.
Print Assumptions C14_dns_udp_match_iff_ref.
Print Assumptions C14_openvpn_tcp_decision_partial.
Print Assumptions C14_openvpn_udp_decision_partial.
Print Assumptions C14_openvpn_v2_modes_iff_partial.
Print Assumptions C14_openvpn_v3_mode_iff_partial.
Print Assumptions C14_openvpn_crypt_sha256_only_refuted.
Print Assumptions C14_ovpn_dns_nonvacuous.
