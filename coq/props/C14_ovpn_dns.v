(* C14 (OpenVPN, DNS) - the matcher accepts exactly what the wire definition and the configured filters say.
   Property theorems only (lemmas: proofs/MatchOpenVpnProofs.v, proofs/MatchDnsProofs.v).

   DNS: the reference [dns_ref] is "the framed bytes unpack to a message whose canonical length is the framed
   length, which is a standard query (QR=0, RCODE=0, Z=0, at least one question) and whose questions pass the
   rule table [filter_spec]" - [filter_spec] is written from the option documentation, the matcher's loop with its
   early returns is proved equal to it.  Wire parsing is delegated (dns.Msg.Unpack is a universally quantified function).
   Question names are compared case-insensitively on ASCII letters (RFC 4343): the matcher lower-cases the name
   before the rules see it (literal name and name_regexp alike), and so does [question_spec].
   One deviation of today's code from the wire definition is outside these theorems because it sits in the
   delegated part and is a recorded finding: the canonical length is the uncompressed one (compressed queries are rejected).

   OpenVPN: framing + opcode + key id + length gates are given as an equation over a complete message (TCP and
   UDP), and the three attempts on a V2 body / the attempt on a V3 body are characterised by "some enabled mode
   parses the body (CodecOpenVpn, whose parsers are exact inverses of the encoders: C18) and the mode's field rules
   hold" - and then, further below, against the INDEPENDENT reference model/OpenVpnRef.v (one theorem per mode). *)
From Coq Require Import List NArith ZArith Bool Arith Lia.
From Coq.Strings Require Import Byte.
From L4.model Require Import GoBase CodecOpenVpn MatchOpenVpn MatchDns OpenVpnRef.
From L4.proofs Require Import MatchOpenVpnProofs MatchDnsProofs OpenVpnRefProofs.
From L4.props Require Import C04_ovpn_dns.
Import ListNotations.

(* ---- DNS ---- *)
Theorem C14_dns_rule_table_eq_spec : forall re c qs, has_rules c = true ->
  questions_loop re c qs = forallb (question_spec re c) qs.
Proof. exact questions_loop_spec. Qed.
(* the size bounds the source compares with (read from MatchDNS.Match by the translator) are the protocol's 65535 on both
   transports: together with the two equivalences below, every well-formed query of up to 65535 bytes that passes the rules
   is matched over TCP and over UDP (EDNS0 queries above 512 bytes included) *)
Theorem C14_dns_size_bounds : dns_tcp_limit = dns_max_msg /\ dns_udp_limit = dns_max_msg /\ dns_max_msg = N.to_nat 65535.
Proof. exact (conj (proj1 dns_limits_ok) (conj (proj2 dns_limits_ok) eq_refl)). Qed.
Theorem C14_dns_rules_case_insensitive : forall re c n1 n2 cl ty, lower_ascii n1 = lower_ascii n2 ->
  question_spec re c {| q_name := n1; q_class := cl; q_type := ty |} = question_spec re c {| q_name := n2; q_class := cl; q_type := ty |}.
Proof. exact question_spec_case_insensitive. Qed.
Theorem C14_dns_tcp_match_iff_ref : forall unpack re c msg lb,
  length lb = 2%nat -> be_N lb = N.of_nat (length msg) ->
  (dns_match unpack re c true (lb ++ msg) = Yes <-> (dns_hdr <= length msg <= dns_max_msg)%nat /\ dns_ref unpack re c msg).
Proof. exact dns_tcp_match_iff_ref. Qed.
Theorem C14_dns_udp_match_iff_ref : forall unpack re c msg,
  (dns_match unpack re c false msg = Yes <-> (dns_hdr <= length msg <= dns_max_msg)%nat /\ dns_ref unpack re c msg).
Proof. exact dns_udp_match_iff_ref. Qed.

(* ---- OpenVPN ---- *)
Theorem C14_openvpn_tcp_decision_partial : forall hmac aes now c ld lb hb body h,
  length lb = 2%nat -> length hb = 1%nat -> be_N lb = N.of_nat (1 + length body) -> header_from_bytes hb = ROk h ->
  ovpn_match hmac aes now c ld true (lb ++ hb ++ body) =
    let l := (1 + length body)%nat in
    if (l <? plain_total)%nat || (crypt2_max <? l)%nat then (No, ld) else
    if (0 <? keyid h)%N then (No, ld) else
    if (opcode h =? op_v2)%N && (acc_plain c || acc_auth c || acc_crypt c) then
      (if (auth_max <? l)%nat then (No, ld) else try_v2 hmac aes now c ld body h)
    else if (opcode h =? op_v3)%N && acc_crypt2 c then
      (if (l <? crypt2_min)%nat then (No, ld) else try_v3 hmac aes now c ld body h)
    else (No, ld).
Proof. exact ovpn_tcp_framed. Qed.
Theorem C14_openvpn_udp_decision_partial : forall hmac aes now c ld hb body h,
  length hb = 1%nat -> header_from_bytes hb = ROk h -> (1 <= length body)%nat ->
  ovpn_match hmac aes now c ld false (hb ++ body) =
    if (0 <? keyid h)%N then (No, ld) else
    if (opcode h =? op_v2)%N && (acc_plain c || acc_auth c || acc_crypt c) then
      (if (length body <? plain_hl)%nat || (auth_max_hl <? length body)%nat then (No, ld) else try_v2 hmac aes now c ld body h)
    else if (opcode h =? op_v3)%N && acc_crypt2 c then
      (if (length body <? crypt2_min_hl)%nat || (crypt2_max_hl <? length body)%nat then (No, ld) else try_v3 hmac aes now c ld body h)
    else (No, ld).
Proof. exact ovpn_udp_framed. Qed.
Theorem C14_openvpn_v2_modes_iff_partial : forall hmac aes now c ld body h, cfg_wf c -> ld_ok ld ->
  (fst (try_v2 hmac aes now c ld body h) = Yes <->
     (acc_plain c = true /\ exists m, plain_from_headless body h = ROk m /\ plain_match (p_sid m) (p_prev m) (p_pid m) = true) \/
     (acc_auth c = true /\ exists m, auth_from_headless body h = ROk m /\ fst (auth_match hmac now c ld m) = BTrue) \/
     (acc_crypt c = true /\ exists m, crypt_from_headless body h = ROk m /\ crypt_match hmac aes now c m = BTrue)).
Proof. exact try_v2_iff. Qed.
Theorem C14_openvpn_v3_mode_iff_partial : forall hmac aes now c ld body h, cfg_wf c ->
  (fst (try_v3 hmac aes now c ld body h) = Yes <->
     exists m, crypt2_from_headless body h = ROk m /\ crypt2_match hmac aes now c m = BTrue).
Proof. exact try_v3_iff. Qed.

(* ---- OpenVPN against the INDEPENDENT reference model/OpenVpnRef.v ----
   [encode]: the packet as the OpenVPN wire definition lays it out, per mode; [wire tcp]: with the 16-bit length prefix over
   TCP, bare as a datagram; [provision rc]: the matcher state the documented options stand for (group_key_direction belongs
   to the auth-mode key only); [passes]: mode enabled, key id 0, session id non-zero, no acks, packet id 0, replay id 1,
   timestamp within 15 s (unless ignore_timestamp), tag length a digest size / the configured digest's size, and - with a
   group key and without ignore_crypto - the tag is the HMAC under the key QUARTER THE DOCUMENTATION PRESCRIBES for the mode
   and direction (tls-auth: key[192..) for normal, key[64..) for inverse/bidi; tls-crypt: HMAC key[192..224), cipher
   key[128..160), no direction), over the documented text.  HMAC and AES-CTR are arbitrary functions. *)
Theorem C14_openvpn_plain_match_iff_ref : forall hmac ctr now rc ld tcp r, rcfg_wf rc -> ld_ok ld -> reset_fits r ->
  (fst (ovpn_match hmac ctr now (provision rc) ld tcp (wire tcp (encode (Plain r)))) = Yes <-> passes hmac ctr now rc (Plain r)).
Proof. exact plain_match_iff_ref. Qed.
(* tls-auth; a 53-byte body (32-byte tag) also reads as a tls-crypt packet, hence the side condition *)
Theorem C14_openvpn_auth_match_iff_ref : forall hmac ctr now rc ld tcp r rp tag, rcfg_wf rc -> ld_ok ld -> reset_fits r -> replay_fits rp ->
  (N.of_nat (length tag) < 60000)%N -> (m_crypt rc = false \/ length tag <> 32%nat) ->
  (fst (ovpn_match hmac ctr now (provision rc) ld tcp (wire tcp (encode (TlsAuth r rp tag)))) = Yes <-> passes hmac ctr now rc (TlsAuth r rp tag)).
Proof. exact auth_match_iff_ref. Qed.
Theorem C14_openvpn_auth_complete : forall hmac ctr now rc ld tcp r rp tag, rcfg_wf rc -> ld_ok ld -> reset_fits r -> replay_fits rp ->
  passes hmac ctr now rc (TlsAuth r rp tag) ->
  fst (ovpn_match hmac ctr now (provision rc) ld tcp (wire tcp (encode (TlsAuth r rp tag)))) = Yes.
Proof. exact auth_complete. Qed.
Theorem C14_openvpn_honest_auth_client_matches : forall hmac ctr now rc ld tcp k cd d r rp,
  (forall key text, length (hmac d key text) = digest_size d) ->
  rcfg_wf rc -> ld_ok ld -> group_key rc = Some k -> m_auth rc = true -> (d < length auth_digests)%nat ->
  match want_digest rc with Some w => w = d | None => True end ->
  match gk_dir rc, cd with DNormal, DNormal => True | DNormal, _ => False | _, DNormal => False | _, _ => True end ->
  reset_fits r -> replay_fits rp -> r_keyid r = 0%N -> (0 < r_sid r)%N -> r_ack r = 0%N -> r_pid r = 0%N ->
  rp_id rp = 1%N -> (no_ts rc = true \/ ts_ok now (rp_ts rp)) ->
  fst (ovpn_match hmac ctr now (provision rc) ld tcp (wire tcp (encode (honest_auth hmac k cd d r rp)))) = Yes.
Proof. exact honest_auth_matches. Qed.
(* tls-crypt: completeness in every configuration; the equivalence when auth mode is off (the same 53 bytes also read as a
   tls-auth packet) and the tag is not the output of another 32-byte digest of the module's table - the module tries those
   as well, which tls-crypt does not allow (recorded finding; witness below) - hence _partial *)
Theorem C14_openvpn_crypt_complete : forall hmac ctr now rc ld tcp kid sid rp tag enc, rcfg_wf rc -> ld_ok ld ->
  fits (TlsCrypt kid sid rp tag enc) -> passes hmac ctr now rc (TlsCrypt kid sid rp tag enc) ->
  fst (ovpn_match hmac ctr now (provision rc) ld tcp (wire tcp (encode (TlsCrypt kid sid rp tag enc)))) = Yes.
Proof. exact crypt_complete. Qed.
Theorem C14_openvpn_crypt_match_iff_ref_partial : forall hmac ctr now rc ld tcp kid sid rp tag enc, rcfg_wf rc -> ld_ok ld ->
  fits (TlsCrypt kid sid rp tag enc) -> m_auth rc = false -> sha256_only hmac tag ->
  (fst (ovpn_match hmac ctr now (provision rc) ld tcp (wire tcp (encode (TlsCrypt kid sid rp tag enc)))) = Yes <->
   passes hmac ctr now rc (TlsCrypt kid sid rp tag enc)).
Proof. exact crypt_match_iff_ref_partial. Qed.
Theorem C14_openvpn_honest_crypt_client_matches : forall hmac ctr now rc ld tcp k sid rp,
  (forall key iv x, ctr key iv (ctr key iv x) = x) ->
  (forall key text, length (hmac sha256 key text) = 32%nat) -> (forall key iv x, length (ctr key iv x) = length x) ->
  rcfg_wf rc -> ld_ok ld -> group_key rc = Some k -> m_crypt rc = true -> (0 < sid < 2 ^ 64)%N -> replay_fits rp ->
  rp_id rp = 1%N -> (no_ts rc = true \/ ts_ok now (rp_ts rp)) ->
  fst (ovpn_match hmac ctr now (provision rc) ld tcp (wire tcp (encode (honest_crypt hmac ctr k 0 sid rp 0 0)))) = Yes.
Proof. exact honest_crypt_matches. Qed.
(* tls-crypt-v2 (server key and/or configured client keys): completeness whenever the wrapped key's plaintext is not 257 bytes
   (metadata = a lone type byte: there the module's HMAC text deviates from  len | Kc | metadata  - recorded finding, witness
   below), and the equivalence when in addition neither tag is the output of a foreign 32-byte digest and the configured
   wrapped keys determine their client keys - hence _partial *)
Theorem C14_openvpn_crypt2_complete : forall hmac ctr now rc ld tcp kid sid rp tag enc wtag wenc, rcfg_wf rc -> wrapped_distinct rc -> ld_ok ld ->
  fits (TlsCrypt2 kid sid rp tag enc wtag wenc) -> length wenc <> 257%nat ->
  passes hmac ctr now rc (TlsCrypt2 kid sid rp tag enc wtag wenc) ->
  fst (ovpn_match hmac ctr now (provision rc) ld tcp (wire tcp (encode (TlsCrypt2 kid sid rp tag enc wtag wenc)))) = Yes.
Proof. exact crypt2_complete. Qed.
Theorem C14_openvpn_crypt2_match_iff_ref_partial : forall hmac ctr now rc ld tcp kid sid rp tag enc wtag wenc,
  rcfg_wf rc -> wrapped_distinct rc -> ld_ok ld ->
  fits (TlsCrypt2 kid sid rp tag enc wtag wenc) -> (N.of_nat (length wenc) < 60000)%N -> length wenc <> 257%nat ->
  sha256_only hmac tag -> sha256_only hmac wtag ->
  (fst (ovpn_match hmac ctr now (provision rc) ld tcp (wire tcp (encode (TlsCrypt2 kid sid rp tag enc wtag wenc)))) = Yes <->
   passes hmac ctr now rc (TlsCrypt2 kid sid rp tag enc wtag wenc)).
Proof. exact crypt2_match_iff_ref_partial. Qed.

(* the module's key selectors against the documented quarters *)
Theorem C14_openvpn_auth_key_quarters : forall k d size, length k = 256%nat ->
  client_auth_key (dir_key k d) size = Some (auth_key k d size).
Proof. exact client_auth_key_doc. Qed.
Theorem C14_openvpn_crypt_key_quarters : forall k, length k = 256%nat ->
  server_decrypt_key (plain_key k) cipher_key = Some (sub k 128 32) /\ client_auth_key (plain_key k) 32 = Some (sub k 192 32).
Proof. exact (fun k H => conj (server_decrypt_key_doc k H) (client_auth_key_plain k 32 H)). Qed.

(* non-vacuity of the reference theorems: functions satisfying the algebraic hypotheses, a configuration with a group key
   and the rarely used inverse direction, honest clients of both keyed modes matched over both transports, and a reset with
   session id 0 rejected *)
Definition ex_hmac : nat -> list byte -> list byte -> list byte := fun d key _ => firstn (digest_size d) (key ++ repeat x5a 64).
Definition ex_ctr : list byte -> list byte -> list byte -> list byte := fun _ _ x => x.
Definition ex_rc : rcfg := {| m_plain := true; m_auth := true; m_crypt := true; m_crypt2 := false; no_crypto := false; no_ts := true;
  group_key := Some (repeat x11 100 ++ repeat x22 100 ++ repeat x33 56); gk_dir := DInverse; want_digest := None; srv_key := None; cl_keys := [] |}.
Definition ex_rp : replay := {| rp_id := 1; rp_ts := 0 |}.
Definition ex_reset (sid : N) : reset := {| r_keyid := 0; r_sid := sid; r_ack := 0; r_pid := 0 |}.
Example C14_openvpn_ref_nonvacuous :
  let k := repeat x11 100 ++ repeat x22 100 ++ repeat x33 56 in
  let run := fun tcp m => fst (ovpn_match ex_hmac ex_ctr 0 (provision ex_rc) None tcp (wire tcp (encode m))) in
  rcfg_wf ex_rc /\
  run true (honest_crypt ex_hmac ex_ctr k 0 7 ex_rp 0 0) = Yes /\ run false (honest_crypt ex_hmac ex_ctr k 0 7 ex_rp 0 0) = Yes /\
  run true (honest_crypt ex_hmac ex_ctr k 0 0 ex_rp 0 0) = No /\
  run true (honest_auth ex_hmac k DBidi 1 (ex_reset 9) ex_rp) = Yes /\ run false (honest_auth ex_hmac k DInverse 6 (ex_reset 9) ex_rp) = Yes /\
  (* a client using the quarter of the other direction is not matched *)
  run true (honest_auth ex_hmac k DNormal 1 (ex_reset 9) ex_rp) = No /\
  run true (Plain (ex_reset 3)) = Yes /\ run false (Plain (ex_reset 0)) = No.
Proof. cbv zeta. split; [|vm_compute; repeat split]. unfold rcfg_wf, ex_rc. cbn. repeat split; auto. Qed.

(* today's code accepts, in crypt mode, a tag that verifies under another 32-byte digest of its table although
   tls-crypt fixes HMAC-SHA256 (recorded finding C14:openvpn-crypt-foreign-digest:accepts-invalid): a model instance
   where only digest 10 (SHA3-256) produces the tag, SHA-256 (digest 4) does not, and the message matches *)
Definition sha3_only : nat -> list byte -> list byte -> list byte := fun d _ _ => if Nat.eqb d 10 then repeat x41 32 else [].
Definition ex_crypt : crypt := {| c_hdr := {| opcode := 7; keyid := 0 |}; c_sid := 1; c_rpid := 1; c_rts := 0;
                                  c_hmac := repeat x41 32; c_enc := repeat x00 5; c_prev := 0; c_pid := 0 |}.
Theorem C14_openvpn_crypt_sha256_only_refuted : exists hmac aes now c m,
  cfg_wf c /\ crypt_match hmac aes now c m = BTrue /\ (forall key pl, hmac digest_default key pl <> c_hmac m).
Proof.
  exists sha3_only, (fun _ _ e => e), 0%Z, ex_cfg, ex_crypt.
  split; [exact (proj1 C04_ovpn_dns_nonvacuous)|]. split; [vm_compute; reflexivity|]. intros key pl. vm_compute. discriminate.
Qed.

(* non-vacuity of the DNS reference and of the decision table: allow + deny + both flags *)
Definition r_name (n : list byte) : rule := {| r_class := []; r_class_re := []; r_name := n; r_name_re := []; r_type := []; r_type_re := [] |}.
Definition qn (n : list byte) : question := {| q_name := n; q_class := Some [x49]; q_type := Some [x41] |}.
Example C14_ovpn_dns_nonvacuous :
  let re := fun _ _ : list byte => true in
  let c := fun dd pa => {| allow := [r_name [x61]; r_name [x62]]; deny := [r_name [x62]; r_name [x63]]; default_deny := dd; prefer_allow := pa |} in
  (* a: allowed only; b: both; c: denied only; d: neither *)
  map (fun n => filter_spec re (c false false) [qn [n]]) [x61; x62; x63; x64] = [true; false; false; true] /\
  map (fun n => filter_spec re (c true true) [qn [n]]) [x61; x62; x63; x64] = [true; true; false; false] /\
  map (fun n => questions_loop re (c true true) [qn [n]]) [x61; x62; x63; x64] = [true; true; false; false] /\
  dns_match (fun _ => Some {| d_len := 14; d_questions := [qn [x61]]; d_response := false; d_rcode := 0; d_zero := false |}) re (c true false) false (repeat x00 14) = Yes /\
  dns_match (fun _ => Some {| d_len := 14; d_questions := [qn [x61]]; d_response := true; d_rcode := 0; d_zero := false |}) re (c true false) false (repeat x00 14) = No /\
  (* upper-case A, B, C, D get the same answers: a deny rule cannot be bypassed by changing case *)
  map (fun n => questions_loop re (c true true) [qn [n]]) [x41; x42; x43; x44] = [true; true; false; false] /\
  lower_ascii [x42; x4c; x6f; x2e; x5a; x40; x5b] = [x62; x6c; x6f; x2e; x7a; x40; x5b].
Proof. vm_compute. repeat split. Qed.

(* the 257-byte case: a wrapped key whose metadata is the type byte only passes the reference but is not matched *)
Definition t_hmac : nat -> list byte -> list byte -> list byte := fun d _ t => firstn (digest_size d) (t ++ repeat x00 64).
Definition t_wenc : list byte := repeat x07 257.
Definition t_wtag : list byte := [x01; x23] ++ repeat x07 30.
Definition t_rc : rcfg := {| m_plain := false; m_auth := false; m_crypt := false; m_crypt2 := true; no_crypto := false; no_ts := true;
  group_key := None; gk_dir := DNormal; want_digest := None; srv_key := Some (repeat x09 128); cl_keys := [] |}.
Definition t_tag : list byte := t_hmac 4 [] (crypt_text 10 0 5 ex_rp (repeat x00 5)).
Definition t_msg : omsg := TlsCrypt2 0 5 ex_rp t_tag (repeat x00 5) t_wtag t_wenc.
Theorem C14_openvpn_crypt2_type_only_metadata_refuted :
  rcfg_wf t_rc /\ fits t_msg /\ passes t_hmac ex_ctr 0 t_rc t_msg /\
  fst (ovpn_match t_hmac ex_ctr 0 (provision t_rc) None true (wire true (encode t_msg))) = No.
Proof.
  split; [unfold rcfg_wf, t_rc; cbn; repeat split; auto|].
  split; [vm_compute; repeat split|].
  split; [|vm_compute; reflexivity].
  unfold t_msg. cbn [passes]. repeat split; try reflexivity; try (vm_compute; lia); try (left; reflexivity).
  right. cbn [t_rc cl_keys srv_key]. exists (repeat x07 256).
  split; [split; [reflexivity|split; vm_compute; reflexivity]|split; vm_compute; reflexivity].
Qed.

Print Assumptions C14_dns_rule_table_eq_spec.
Print Assumptions C14_openvpn_crypt2_type_only_metadata_refuted.
Print Assumptions C14_dns_size_bounds.
Print Assumptions C14_dns_rules_case_insensitive.
Print Assumptions C14_dns_tcp_match_iff_ref.
Print Assumptions C14_dns_udp_match_iff_ref.
Print Assumptions C14_openvpn_tcp_decision_partial.
Print Assumptions C14_openvpn_udp_decision_partial.
Print Assumptions C14_openvpn_v2_modes_iff_partial.
Print Assumptions C14_openvpn_v3_mode_iff_partial.
Print Assumptions C14_openvpn_plain_match_iff_ref.
Print Assumptions C14_openvpn_auth_match_iff_ref.
Print Assumptions C14_openvpn_auth_complete.
Print Assumptions C14_openvpn_honest_auth_client_matches.
Print Assumptions C14_openvpn_crypt_complete.
Print Assumptions C14_openvpn_crypt_match_iff_ref_partial.
Print Assumptions C14_openvpn_honest_crypt_client_matches.
Print Assumptions C14_openvpn_crypt2_complete.
Print Assumptions C14_openvpn_crypt2_match_iff_ref_partial.
Print Assumptions C14_openvpn_auth_key_quarters.
Print Assumptions C14_openvpn_crypt_key_quarters.
Print Assumptions C14_openvpn_ref_nonvacuous.
Print Assumptions C14_openvpn_crypt_sha256_only_refuted.
Print Assumptions C14_ovpn_dns_nonvacuous.
