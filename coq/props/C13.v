(* C13 - Listener wrapper hands unconsumed connections over exactly once; Accept after Close;
   no goroutine of the wrapper stays blocked.  Channel-level interleaving model: model/Listener.v
   (scheduler = arbitrary interleaving of the modelled steps; connChan capacity is a parameter).
   Property theorems only; lemmas: proofs/ListenerProofs.v.  The byte-level half of the property
   (the handed-over stream is intact) is props/C13_handover.v. *)
From Coq Require Import List Arith Bool.
From L4.model Require Import Listener.
From L4.proofs Require Import ListenerProofs.
Import ListNotations.

Local Notation cnt := (count_occ Nat.eq_dec).

(* In every reachable state: no connection was returned by Accept twice, closed twice, or both
   returned and closed; only connections that reached the listener handler (Hijack) are ever
   returned; everything returned or closed had been accepted by the loop. *)
Theorem C13_delivered_exactly_once_safety : forall cap s, reachable cap s ->
  NoDup (delivered s ++ closedc s) /\
  (forall c, In c (delivered s) -> outcome_of s c = Some Hijack) /\
  (forall c, In c (delivered s ++ closedc s) -> In c (conns s)).
Proof. exact once_safety. Qed.

(* When no goroutine of the wrapper holds a connection any more (all handlers returned, channel
   empty): every hijacked connection was returned by exactly one Accept or closed by the drain
   (never both), every consumed/rejected connection was closed exactly once and never delivered. *)
Theorem C13_delivered_exactly_once : forall cap s, reachable cap s -> quiescent s ->
  forall c o, In (c, o) (arrived s) ->
    (o = Hijack -> cnt (delivered s) c + cnt (closedc s) c = 1) /\
    (o <> Hijack -> cnt (delivered s) c = 0 /\ cnt (closedc s) c = 1).
Proof. exact once_final. Qed.

(* Once done is closed and the channel is closed and empty, no later Accept returns a connection,
   whatever else happens; and from the moment done is closed Accept never blocks. *)
Theorem C13_accept_after_close : forall cap s, reachable cap s -> drained s ->
  forall es s', run cap s es = Some s' -> drained s' /\ delivered s' = delivered s.
Proof. exact accept_after_close_reach. Qed.

Theorem C13_accept_never_blocks_after_done : forall cap s, done s = true ->
  exists s', step cap s EAcceptDone = Some s' /\ delivered s' = delivered s /\ accept_errs s' = S (accept_errs s).
Proof. exact accept_done_enabled. Qed.

(* The model never sends on the closed channel and never drives the WaitGroup negative. *)
Theorem C13_no_panic : forall cap s, reachable cap s -> panicked s = false.
Proof. exact no_panic_reach. Qed.

(* After Close (closed set, so no further arrivals): from any reachable state the wrapper's
   goroutines take at most [measure s] steps in any continuation, and a state in which none of
   them can move is final: loop exited, every handler returned, channel closed and empty.  Hence
   every maximal execution after Close ends with all handler steps finished. *)
Theorem C13_no_goroutine_stuck_bounded : forall cap s, reachable cap s -> closed_flag s = true ->
  forall es s', run cap s es = Some s' -> count_system es + measure s' <= measure s.
Proof. exact system_steps_bounded_reach. Qed.

Theorem C13_no_goroutine_stuck : forall cap s, 0 < cap -> reachable cap s ->
  (forall e, system_event e = true -> step cap s e = None) -> final s.
Proof. exact stuck_is_final_reach. Qed.

Theorem C13_progress_until_final : forall cap s, 0 < cap -> reachable cap s -> ~ final s ->
  exists e s', system_event e = true /\ step cap s e = Some s'.
Proof. exact progress_reach. Qed.

(* The loop registers a handler with the WaitGroup before it starts it (read from the source by
   l4gen), so every state the wrapper reaches is a state of the model above, and it never panics. *)
Theorem C13_wg_registered_before_go : L4.gen.Shape.layer4_listener_wg_add_before_go = true.
Proof. exact wg_fact. Qed.

Theorem C13_source_model_reachable : forall cap es s2,
  run2 L4.gen.Shape.layer4_listener_wg_add_before_go cap init2 es = Some s2 -> reachable cap (base s2) /\ spawned s2 = [].
Proof. exact source_model_reachable. Qed.

Theorem C13_source_no_panic : forall cap es s2,
  run2 L4.gen.Shape.layer4_listener_wg_add_before_go cap init2 es = Some s2 -> panicked (base s2) = false.
Proof. exact source_no_panic. Qed.

(* With wg.Add as the first statement of handle instead: a connection is accepted, the listener is
   closed, the waiter finds the counter at zero and closes connChan, then the handler registers,
   reaches pipeConnection and sends on the closed channel. *)
Definition ex_late_register : list levent :=
  [ LSpawn 1 Hijack; LE EClose; LE EAcceptFail; LE EWaiter; LRegister 1; LE (ERun 1); LE (ESend 1) ].

Theorem C13_wg_add_inside_handle_refuted : exists cap es s2,
  run2 false cap init2 es = Some s2 /\ panicked (base s2) = true.
Proof. exists 1, ex_late_register. vm_compute. eexists. split; reflexivity. Qed.

(* connChan never holds more than its capacity (a sender blocks instead) *)
Theorem C13_channel_bounded : forall cap s, reachable cap s -> length (chan s) <= cap.
Proof. exact chan_bounded_reach. Qed.

(* Non-vacuity: a schedule with a consumed, a rejected and two hijacked connections, capacity 1,
   a slow consumer and Close while one hijacked connection is still blocked in the send. *)
Definition ex_sched : list event :=
  [ EArrive 1 Hijack; EArrive 2 Consumed; EArrive 3 Hijack; EArrive 4 Rejected;
    ERun 1; ESend 1; ERun 3; ERun 2; EWgDone 2; EConnClose 2; ERun 4; EWgDone 4;
    EAcceptRecv; EWgDone 1; EClose; EAcceptFail; ECloseDone; EAcceptDone;
    ESend 3; EDrainRecv; EWgDone 3; EConnClose 4; EWaiter; EDrainExit; EAcceptRecv; EAcceptDone ].

Example C13_example_run :
  match run 1 init ex_sched with
  | Some s => delivered s = [1] /\ closedc s = [4; 3; 2] /\ accept_errs s = 3 /\ loop s = LExit /\ measure s = 0
  | None => False
  end.
Proof. vm_compute. repeat split. Qed.

(* the blocked send really blocks: with capacity 1 the second send is not enabled before a receive *)
Example C13_example_send_blocks :
  run 1 init [EArrive 1 Hijack; EArrive 3 Hijack; ERun 1; ESend 1; ERun 3; ESend 3] = None.
Proof. vm_compute. reflexivity. Qed.

Print Assumptions C13_delivered_exactly_once_safety.
Print Assumptions C13_delivered_exactly_once.
Print Assumptions C13_accept_after_close.
Print Assumptions C13_accept_never_blocks_after_done.
Print Assumptions C13_no_panic.
Print Assumptions C13_no_goroutine_stuck_bounded.
Print Assumptions C13_no_goroutine_stuck.
Print Assumptions C13_progress_until_final.
Print Assumptions C13_channel_bounded.
Print Assumptions C13_wg_registered_before_go.
Print Assumptions C13_source_model_reachable.
Print Assumptions C13_source_no_panic.
Print Assumptions C13_wg_add_inside_handle_refuted.
Print Assumptions C13_example_run.
Print Assumptions C13_example_send_blocks.
