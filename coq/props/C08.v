(* C08 - Concurrent connections never interfere: no cross-talk through pooled buffers, no data
   races on shared state.

   (i)  model/Pool.v: heap of arrays, sync.Pool as an arbitrary choice among the free arrays,
        slice views with Go's append aliasing, the life cycles of Server.handle, listener.handle
        and the tee branch read from gen/Shape.v; events of any number of connections interleave
        arbitrarily (the event list is the schedule).  Lemmas: proofs/PoolProofs.v.
   (ii) model/Discipline.v over gen/Access.v (regenerated from the source on every run): every
        access to a location shared between goroutines serving connections is atomic, or all of
        them are reads.  Lemmas: proofs/DisciplineProofs.v.  The table extraction (tools/l4gen)
        is trusted; Go's memory model is abstracted to "two concurrent accesses race unless both
        are atomic or both are reads", with no happens-before between different handler threads. *)
From Coq Require Import List Arith Bool String.
From Coq.Strings Require Import Byte.
From L4 Require Import Hex.
From L4.gen Require Import Shape Access.
From L4.model Require Import Pool Discipline.
From L4.proofs Require Import PoolProofs DisciplineProofs.
Import ListNotations.
Local Open Scope string_scope.

(* ---------- (i) buffer pool ---------- *)

(* what the source does today, as recognised by the translator *)
Theorem C08_shape_ok : good_disc server_disc /\ good_disc listener_disc /\ good_disc tee_disc.
Proof. exact (conj server_disc_good (conj listener_disc_good tee_disc_good)). Qed.

Theorem C08_consts_ok : 0 < chunk /\ chunk <= maxb.
Proof. exact consts_ok. Qed.

(* For every interleaving under a discipline that returns an array only when no live Connection
   refers to it, the bytes a connection sees (matchers and handlers alike) are exactly the bytes
   it sees alone. *)
Theorem C08_pool_noninterference : forall d, good_disc d -> forall es c,
  got_of (prun d pinit es) c = got_of (prun d pinit (alone c es)) c.
Proof. exact noninterference. Qed.

Theorem C08_pool_noninterference_server : forall es c,
  got_of (prun server_disc pinit es) c = got_of (prun server_disc pinit (alone c es)) c.
Proof. exact noninterference_server. Qed.

Theorem C08_pool_noninterference_tee : forall es c,
  got_of (prun tee_disc pinit es) c = got_of (prun tee_disc pinit (alone c es)) c.
Proof. exact noninterference_tee. Qed.

(* no array in the pool is referenced by a live view; no two live connections share an array *)
Theorem C08_no_free_buffer_referenced : forall es c st b,
  cs (prun server_disc pinit es) c = Some st -> live st = true -> In b (refs st) ->
  ~ In b (free (prun server_disc pinit es)).
Proof. exact no_free_referenced_server. Qed.

Theorem C08_no_shared_buffer : forall es c c' st st' b,
  c <> c' -> cs (prun server_disc pinit es) c = Some st -> cs (prun server_disc pinit es) c' = Some st' ->
  live st = true -> live st' = true -> In b (refs st) -> ~ In b (refs st').
Proof. exact no_sharing_server. Qed.

(* anything computed from the bytes a connection sees (a routing verdict, C06) is unaffected *)
Theorem C08_verdicts_independent : forall d, good_disc d -> forall (A : Type) (f : list byte -> A) es c,
  f (got_of (prun d pinit es) c) = f (got_of (prun d pinit (alone c es)) c).
Proof. exact verdicts_independent. Qed.

(* witnesses for the life cycles that are NOT good disciplines *)
Definition ex_hijack : list pevent :=
  [ PGet 1 None; PPrefetch 1 (unhex "41414141") None 0; PReturn 1 true;
    PGet 2 (Some 0); PPrefetch 2 (unhex "42424242") None 0; PRead 1 4 ].

(* listener.handle before f83061f *)
Theorem C08_listener_hijack_refuted : exists es c,
  got_of (prun unconditional_put_disc pinit es) c <> got_of (prun unconditional_put_disc pinit (alone c es)) c.
Proof. exists ex_hijack, 1. vm_compute. discriminate. Qed.

(* tee before cc605f6 (branchc := *cx): branch 3 of connection 1 outlives handle; without
   connection 2 it reads "AAAA", with it "BBBB" *)
Definition ex_tee : list pevent :=
  [ PGet 1 None; PPrefetch 1 (unhex "41414141") None 0; PFork 1 3; PReturn 1 false;
    PGet 2 (Some 0); PPrefetch 2 (unhex "42424242") None 0; PRead 3 4 ].

Theorem C08_tee_branch_outlives_refuted : exists es c c',
  got_of (prun alias_fork_disc pinit es) c <> got_of (prun alias_fork_disc pinit (without c' es)) c.
Proof. exists ex_tee, 3, 2. vm_compute. discriminate. Qed.

(* bufPool.Put moved in front of the handler (a breaking edit of Server.handle) *)
Definition ex_early : list pevent :=
  [ PGet 1 None; PGet 2 (Some 0); PPrefetch 1 (unhex "41414141") None 0;
    PPrefetch 2 (unhex "42424242") None 0; PRead 1 4 ].

Theorem C08_early_put_refuted : exists es c,
  got_of (prun early_put_disc pinit es) c <> got_of (prun early_put_disc pinit (alone c es)) c.
Proof. exists ex_early, 1. vm_compute. discriminate. Qed.

(* prefetch adopting the temporary pooled chunk as the buffer of a Connection that has nothing
   buffered (e.g. one made by Wrap: connection 1 below is such a branch/wrapped Connection) *)
Definition ex_adopt : list pevent :=
  [ PFork 9 1; PPrefetch 1 (unhex "41414141") None 0; PGet 2 (Some 0);
    PPrefetch 2 (unhex "42424242") None 0; PRead 1 4 ].

Theorem C08_prefetch_adopts_chunk_refuted : exists es c,
  got_of (prun adopt_tmp_disc pinit es) c <> got_of (prun adopt_tmp_disc pinit (alone c es)) c.
Proof. exists ex_adopt, 1. vm_compute. discriminate. Qed.

(* non-vacuity: a schedule with three overlapping connections, a buffer that grows past one
   chunk (private array), pool reuse, hand-over and late reads *)
Definition ex_good : list pevent :=
  [ PGet 1 None; PPrefetch 1 (unhex "4141") None 0; PGet 2 None; PPrefetch 2 (unhex "424242") (Some 0) 0;
    PPeek 1; PPrefetch 1 (unhex "4343") None 4096; PReturn 1 true; PReturn 2 false;
    PGet 3 (Some 0); PPrefetch 3 (unhex "44444444") None 0; PRead 1 3; PRead 3 2; PRead 1 1; PReturn 3 false ].

Example C08_example_good :
  got_of (prun server_disc pinit ex_good) 1 = unhex "414141414343" /\
  got_of (prun server_disc pinit ex_good) 3 = unhex "4444" /\
  free (prun server_disc pinit ex_good) = [1; 2].
Proof. vm_compute. repeat split. Qed.

(* ---------- (ii) access discipline ---------- *)

(* recorded findings: each entry must be a key C08:race:<location> in known_findings.txt (the
   engine reports every flagged location under that key, so an unrecorded one is a VIOLATION) *)
Definition exempt : list string :=
  [ "l4openvpn.MatchOpenVPN.lastDigest"; "layer4.Connection.bytesWritten" ].

Theorem C08_discipline_sound : forall t, check t = true -> forall tr, wf t tr -> ~ race tr.
Proof. exact discipline_sound. Qed.

Theorem C08_discipline_complete : forall t, check t = false -> exists tr, wf t tr /\ race tr.
Proof. exact discipline_complete. Qed.

(* the regenerated table minus the recorded findings satisfies the discipline *)
Theorem C08_discipline_holds : check (minus exempt table) = true.
Proof. vm_compute. reflexivity. Qed.

(* ... and the exemptions are exactly the locations the discipline flags: none is stale, none is missing *)
Theorem C08_exemptions_exact : flagged table = exempt.
Proof. vm_compute. reflexivity. Qed.

Theorem C08_findings_refuted : check table = false.
Proof. vm_compute. reflexivity. Qed.

(* package-level sync.Pool variables hand objects from one connection to the next.  The two that
   exist are modelled: bufPool (model/Pool.v) and udpBufPool (model/UdpPool.v) hold byte arrays whose
   old contents no view or packet can reach.  A pool the proofs do not know about makes this fail
   (and the engine reports it as C08:shared:<pkg>.<var>). *)
Definition known_pools : list string := [ "layer4.bufPool"; "layer4.udpBufPool" ].

Theorem C08_shared_pools_known : shared_pools = known_pools.
Proof. vm_compute. reflexivity. Qed.

(* fields the translator marks read-only after provisioning are only read by per-connection code *)
Theorem C08_readonly_after_provision : forallb (only_reads table) readonly_after_provision = true.
Proof. vm_compute. reflexivity. Qed.

(* the counters the property names are in the table and clean *)
Example C08_example_atomic_locations :
  forallb (fun l => in_table table l && loc_ok table l)
    [ "l4proxy.peer.numConns"; "l4proxy.peer.unhealthy"; "l4proxy.peer.fails";
      "l4proxy.RoundRobinSelection.robin"; "layer4.packetConn.deadline";
      "l4throttle.Handler.totalLimiter"; "layer4.Connection.bytesRead" ] = true.
Proof. vm_compute. reflexivity. Qed.

Print Assumptions C08_shape_ok.
Print Assumptions C08_consts_ok.
Print Assumptions C08_pool_noninterference.
Print Assumptions C08_pool_noninterference_server.
Print Assumptions C08_pool_noninterference_tee.
Print Assumptions C08_no_free_buffer_referenced.
Print Assumptions C08_no_shared_buffer.
Print Assumptions C08_verdicts_independent.
Print Assumptions C08_listener_hijack_refuted.
Print Assumptions C08_tee_branch_outlives_refuted.
Print Assumptions C08_early_put_refuted.
Print Assumptions C08_prefetch_adopts_chunk_refuted.
Print Assumptions C08_example_good.
Print Assumptions C08_discipline_sound.
Print Assumptions C08_discipline_complete.
Print Assumptions C08_discipline_holds.
Print Assumptions C08_exemptions_exact.
Print Assumptions C08_findings_refuted.
Print Assumptions C08_shared_pools_known.
Print Assumptions C08_readonly_after_provision.
Print Assumptions C08_example_atomic_locations.
