(* C09 - UDP datagrams are demultiplexed per client, in order; the server loop never crashes;
   a fresh virtual connection after one ended.
   Property theorems only; every proof is [exact <lemma>] (lemmas: proofs/UdpProofs.v).
   [g] ranges over all configurations of the model (capacities, statement order of Close, how
   the loop sends and forgets); [src_cfg] is the configuration read from /repo's
   layer4/server.go by tools/l4gen on every run; [legacy_cfg] is the code before the repairs
   f8df28a / 9d1abd0. Executions are step lists chosen by an oracle: [run g init ts = Some s]. *)
From Coq Require Import List Arith NArith Bool.
From L4.model Require Import Udp.
From L4.proofs Require Import UdpProofs.
Import ListNotations.

(* ---- per_client_in_order: every configuration, every execution ---- *)

(* what association c takes from its readCh is, in arrival order, a subsequence of the datagrams
   that arrived from c's own address *)
Theorem C09_per_client_in_order : forall g ts s c k,
  run g init ts = Some s -> get s c = Some k ->
  subseq (reads_of c (trace s)) (from (caddr k) (arrivals (trace s))).
Proof. exact reads_in_order. Qed.

(* every byte range an association ever read belongs to a datagram from its own address *)
Theorem C09_reads_only_own_address : forall g ts s c p f off len,
  run g init ts = Some s -> In (ERead c p f off len) (trace s) ->
  exists k, get s c = Some k /\ src p = caddr k.
Proof. exact reads_event_own. Qed.

(* every reply is sent to the address of the association that wrote it *)
Theorem C09_replies_to_own_address : forall g ts s c w a,
  run g init ts = Some s -> In (EWrite c w a) (trace s) ->
  exists k, get s c = Some k /\ caddr k = a.
Proof. exact writes_own. Qed.

(* across successive associations of one address: in the order in which the loop handed
   datagrams over ([routes], a subsequence of the arrival order; [routed_to c] is its part for
   association c, of which [reads_of c] is a subsequence), a later datagram of the same address
   never goes to an older association *)
Theorem C09_successive_associations_in_order : forall g ts s l1 p1 c1 l2 p2 c2 l3,
  run g init ts = Some s ->
  routes (trace s) = l1 ++ (p1, c1) :: l2 ++ (p2, c2) :: l3 -> src p1 = src p2 -> c1 <= c2.
Proof. exact routes_monotone. Qed.

(* ---- fresh_after_end ---- *)

(* once the loop has processed the close notification of the association that owns address a,
   the table entry for a and every datagram from a that the loop takes later belong to an
   association created afterwards *)
Theorem C09_fresh_after_end : forall g s s1 a c r ts s2,
  exec g s LoopClose = Some s1 -> closeCh s = (a, c) :: r ->
  notify_identity g = false \/ lookup a (table s) = Some c \/ lookup a (table s) = None ->
  run g s1 ts = Some s2 ->
  (forall c', lookup a (table s2) = Some c' -> length (conns s1) <= c') /\
  (forall p c', pending s2 = Some (p, c') -> src p = a -> length (conns s1) <= c').
Proof. exact fresh_after_close. Qed.

(* and the next datagram from an address without an entry does create one *)
Theorem C09_next_datagram_creates : forall g s p l,
  panicked s = false -> stopped s = false -> pending s = None -> packets s = QPkt p :: l ->
  lookup (src p) (table s) = None ->
  exists s', exec g s LoopRecv = Some s' /\
    conns s' = conns s ++ [new_conn (src p)] /\
    lookup (src p) (table s') = Some (length (conns s)) /\
    pending s' = Some (p, length (conns s)) /\
    trace s' = trace s ++ [ENew (length (conns s)) (src p)].
Proof. exact absent_creates. Qed.

(* the source does better: as soon as Close has signalled closure (before the loop has seen any
   notification) the next datagram the loop takes from that address starts a new association *)
Theorem C09_fresh_as_soon_as_closed : forall g s p l c k,
  skips_closed g = true ->
  panicked s = false -> stopped s = false -> pending s = None -> packets s = QPkt p :: l ->
  lookup (src p) (table s) = Some c -> get s c = Some k -> sclosed k = true ->
  exists s', exec g s LoopRecv = Some s' /\
    conns s' = conns s ++ [new_conn (src p)] /\
    lookup (src p) (table s') = Some (length (conns s)) /\
    pending s' = Some (p, length (conns s)).
Proof. exact closed_creates. Qed.
Theorem C09_src_skips_closed : skips_closed src_cfg = true.
Proof. exact src_skips_closed. Qed.

(* an association that has ended by returning io.EOF (idle expiry) and whose notification is no
   longer queued owns no table entry, so no datagram the loop takes from now on is handed to it -
   for every configuration whose Read notifies the loop with a blocking send *)
Theorem C09_fresh_after_idle_expiry : forall g ts s c k,
  notifies_reliably g -> run g init ts = Some s ->
  get s c = Some k -> In c (eofs (trace s)) -> ~ In (caddr k, c) (closeCh s) ->
  lookup (caddr k) (table s) <> Some c.
Proof. exact eof_forgotten. Qed.
Theorem C09_src_notifies_reliably : notifies_reliably src_cfg.
Proof. exact src_notifies_reliably. Qed.
(* a notification sent with select/default is lost when closeCh is full: the loop blocked on a full
   readCh, ten associations finishing, the victim idling out, then its next datagram goes to the
   association that has ended *)
Theorem C09_fresh_after_idle_expiry_refuted_for_nonblocking_notification :
  exists s, run lossy_cfg init lossy_witness = Some s /\
    In 0 (eofs (trace s)) /\ closeCh s = [] /\ pending s = Some (D 1 30 8%N, 0) /\ length (conns s) = 12.
Proof. exact lossy_serves_ended_association. Qed.
Example C09_src_blocks_where_lossy_drops : run src_cfg init lossy_witness = None.
Proof. exact src_blocks_instead. Qed.

(* ---- Read after Close: whatever remainder of a datagram was held, no bytes, io.EOF ---- *)
Theorem C09_close_releases_remainder : forall g s s' c k i,
  exec g s (CloseStep c) = Some s' -> get s c = Some k -> cphase k = Closing i ->
  nth_error (close_ops g) i = Some CRelease ->
  exists k', get s' c = Some k' /\ last k' = None /\ cphase k' = Closing (S i).
Proof. exact close_release_clears. Qed.
Theorem C09_read_after_close_no_bytes : forall g s c k n,
  get s c = Some k -> last k = None -> readq k = [] -> exec g s (ConnRead c n) = None.
Proof. exact read_nothing_held. Qed.
Theorem C09_read_after_close_eof : forall g s c k,
  panicked s = false -> read_selects_closed g = true -> get s c = Some k -> sclosed k = true -> last k = None ->
  length (closeCh s) < cap_close g ->
  exists s', exec g s (ConnEof c) = Some s' /\ trace s' = trace s ++ [EEof c].
Proof. exact read_closed_eof. Qed.
Theorem C09_src_close_releases_first :
  nth_error (close_ops src_cfg) 0 = Some CRelease /\ read_selects_closed src_cfg = true.
Proof. exact src_close_releases_first. Qed.
Example C09_src_read_after_close :
  exists s, run src_cfg init read_after_close = Some s /\
    exec src_cfg s (ConnRead 0 2048%N) = None /\
    (exists s', exec src_cfg s (ConnEof 0) = Some s' /\ List.last (trace s') EStop = EEof 0) /\
    chunks_ok (trace s ++ [ERead 0 (D 1 0 9000%N) false 2048%N 2048%N]) = false.
Proof. exact src_read_after_close. Qed.

(* ---- no end of stream without a cause; exact-fit reads ---- *)
(* Read takes the closed path (io.EOF without an idle timeout) only after Close has begun *)
Theorem C09_eof_needs_close : forall g ts s s' c k,
  run g init ts = Some s -> exec g s (ConnEof c) = Some s' -> get s c = Some k -> In (ERet c) (trace s).
Proof. exact eof_needs_close. Qed.
(* a datagram not longer than the caller's buffer is consumed entirely: no remainder is kept, so
   the next Read waits for the next datagram *)
Theorem C09_exact_fit_read_keeps_nothing : forall g s c k p q n,
  panicked s = false -> get s c = Some k -> last k = None -> readq k = p :: q -> (size p <= n)%N ->
  exists s' k', exec g s (ConnRead c n) = Some s' /\ get s' c = Some k' /\ last k' = None /\ readq k' = q /\
    trace s' = trace s ++ [ERead c p true 0%N (size p)].
Proof. exact exact_fit_clears. Qed.

(* ---- loop_never_panics ---- *)

(* any Close that never closes readCh (closure is signalled on a separate channel) *)
Theorem C09_loop_never_panics_fixed : forall g ts s,
  never_closes g -> run g init ts = Some s -> panicked s = false.
Proof. exact never_closes_no_panic. Qed.

(* the code in /repo today *)
Theorem C09_loop_never_panics : forall ts s, run src_cfg init ts = Some s -> panicked s = false.
Proof. exact src_no_panic. Qed.

(* the code before f8df28a: close(readCh) precedes the notification *)
Theorem C09_loop_never_panics_refuted : exists ts s, run legacy_cfg init ts = Some s /\ panicked s = true.
Proof. exact legacy_panics. Qed.
Theorem C09_loop_never_panics_refuted_blocked_sender : exists ts s, run legacy_cfg init ts = Some s /\ panicked s = true.
Proof. exact legacy_panics_blocked. Qed.

(* ---- one live association per client ---- *)

(* when a notification identifies its association: two associations of one address that have
   neither seen EOF nor returned are the same association *)
Theorem C09_one_live_association_fixed : forall g ts s c1 c2 k1 k2,
  notify_identity g = true -> run g init ts = Some s ->
  get s c1 = Some k1 -> get s c2 = Some k2 -> caddr k1 = caddr k2 ->
  ended c1 (trace s) = false -> ended c2 (trace s) = false -> c1 = c2.
Proof. exact live_unique. Qed.
Theorem C09_src_notify_identity : notify_identity src_cfg = true.
Proof. exact src_notify_identity. Qed.

(* before 9d1abd0: idle expiry, new association, then the old handler's Close: its second
   notification deletes the new association's entry and a third one is started next to it *)
Theorem C09_stale_close_deletes_fresh_entry_refuted :
  exists ts s, run legacy_cfg init ts = Some s /\ panicked s = false /\ two_live s.
Proof. exact legacy_stale_close. Qed.

(* ---- obligations over the regenerated source facts ---- *)

Theorem C09_src_shape_ok :
  forallb cop_known (close_ops src_cfg) = true /\
  1 <= cap_packets src_cfg /\ 1 <= cap_close src_cfg /\ 1 <= cap_read src_cfg /\
  existsb (fun o => match o with CNotify => true | _ => false end) (close_ops src_cfg) = true /\
  read_eof_notifies src_cfg = true.
Proof. exact src_shape_ok. Qed.

(* ---- the conditions the recorded event logs are checked against hold for every execution ---- *)

Theorem C09_accept_own : forall g ts s, run g init ts = Some s -> own_ok (trace s) = true.
Proof. exact own_ok_run. Qed.
Theorem C09_accept_order : forall g ts s, run g init ts = Some s -> order_ok (trace s) = true.
Proof. exact order_ok_run. Qed.
Theorem C09_accept_causal : forall g ts s, run g init ts = Some s -> causal_ok (trace s) = true.
Proof. exact causal_ok_run. Qed.
Theorem C09_accept_eof_cause : forall g ts s, run g init ts = Some s -> eofc_ok (trace s) = true.
Proof. exact eofc_ok_run. Qed.
Theorem C09_accept_fresh : forall g ts s,
  notify_identity g = true -> run g init ts = Some s -> fresh_ok (trace s) = true.
Proof. exact fresh_ok_run. Qed.

(* ---- non-vacuity ---- *)

Example C09_demo_two_clients : exists s, run src_cfg init demo = Some s /\
  reads_of 0 (trace s) = [D 1 0 100%N; D 1 2 50%N] /\ reads_of 1 (trace s) = [D 2 1 300%N] /\ reads_of 2 (trace s) = [D 1 3 10%N] /\
  writes (trace s) = [(0, 0, 1); (1, 1, 2)] /\ news (trace s) = [(0, 1); (1, 2); (2, 1)] /\
  accepts src_cfg (trace s) = true.
Proof. exact demo_runs. Qed.
Example C09_src_survives_panic_witness :
  exists s, run src_cfg init panic_witness = Some s /\ panicked s = false /\ length (conns s) = 2.
Proof. exact src_survives_panic_witness. Qed.
Example C09_src_survives_blocked_sender :
  exists s, run src_cfg init blocked_then_drop = Some s /\ panicked s = false /\ pending s = None.
Proof. exact src_survives_blocked_witness. Qed.
Example C09_src_stale_notification_harmless :
  exists s, run src_cfg init (firstn 16 stale_witness ++ [SockRecv (D 7 3 8%N); LoopRecv; LoopSend; ConnRead 1 9000%N]) = Some s /\
    length (conns s) = 2 /\ reads_of 1 (trace s) = [D 7 2 8%N; D 7 3 8%N].
Proof. exact src_stale_witness_harmless. Qed.

Print Assumptions C09_per_client_in_order.
Print Assumptions C09_reads_only_own_address.
Print Assumptions C09_replies_to_own_address.
Print Assumptions C09_successive_associations_in_order.
Print Assumptions C09_fresh_after_end.
Print Assumptions C09_next_datagram_creates.
Print Assumptions C09_fresh_as_soon_as_closed.
Print Assumptions C09_src_skips_closed.
Print Assumptions C09_fresh_after_idle_expiry.
Print Assumptions C09_src_notifies_reliably.
Print Assumptions C09_fresh_after_idle_expiry_refuted_for_nonblocking_notification.
Print Assumptions C09_src_blocks_where_lossy_drops.
Print Assumptions C09_close_releases_remainder.
Print Assumptions C09_read_after_close_no_bytes.
Print Assumptions C09_read_after_close_eof.
Print Assumptions C09_src_close_releases_first.
Print Assumptions C09_src_read_after_close.
Print Assumptions C09_eof_needs_close.
Print Assumptions C09_exact_fit_read_keeps_nothing.
Print Assumptions C09_accept_eof_cause.
Print Assumptions C09_loop_never_panics_fixed.
Print Assumptions C09_loop_never_panics.
Print Assumptions C09_loop_never_panics_refuted.
Print Assumptions C09_loop_never_panics_refuted_blocked_sender.
Print Assumptions C09_one_live_association_fixed.
Print Assumptions C09_src_notify_identity.
Print Assumptions C09_stale_close_deletes_fresh_entry_refuted.
Print Assumptions C09_src_shape_ok.
Print Assumptions C09_accept_own.
Print Assumptions C09_accept_order.
Print Assumptions C09_accept_causal.
Print Assumptions C09_accept_fresh.
Print Assumptions C09_demo_two_clients.
Print Assumptions C09_src_survives_panic_witness.
Print Assumptions C09_src_survives_blocked_sender.
Print Assumptions C09_src_stale_notification_harmless.
