(* C09 - UDP datagrams are demultiplexed per client, in order; the server loop never crashes;
   a fresh virtual connection after one ended.
   Property theorems only; every proof is [exact <lemma>] (lemmas: proofs/UdpProofs.v).
   [src_cfg] is the configuration read from /repo's layer4/server.go by tools/l4gen. *)
From Coq Require Import List Arith Bool.
From L4.model Require Import Udp.
From L4.proofs Require Import UdpProofs.
Import ListNotations.

(* per_client_in_order, for every configuration and every execution *)
Theorem C09_per_client_in_order : forall g ts s c k,
  run g init ts = Some s -> get s c = Some k ->
  subseq (reads_of c (trace s)) (from (caddr k) (arrivals (trace s))).
Proof. exact reads_in_order. Qed.

Theorem C09_fresh_after_end : forall g s s1 a c r ts s2,
  exec g s LoopClose = Some s1 -> closeCh s = (a, c) :: r ->
  notify_identity g = false \/ lookup a (table s) = Some c \/ lookup a (table s) = None ->
  run g s1 ts = Some s2 ->
  (forall c', lookup a (table s2) = Some c' -> length (conns s1) <= c') /\
  (forall p c', pending s2 = Some (p, c') -> src p = a -> length (conns s1) <= c').
Proof. exact fresh_after_close. Qed.

Theorem C09_loop_never_panics_fixed : forall g ts s,
  never_closes g -> run g init ts = Some s -> panicked s = false.
Proof. exact never_closes_no_panic. Qed.

Theorem C09_loop_never_panics_refuted : exists ts s, run legacy_cfg init ts = Some s /\ panicked s = true.
Proof. exact legacy_panics. Qed.

Print Assumptions C09_per_client_in_order.
Print Assumptions C09_fresh_after_end.
Print Assumptions C09_loop_never_panics_fixed.
Print Assumptions C09_loop_never_panics_refuted.
