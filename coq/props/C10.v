(* C10 - Selection policies return an available upstream iff one exists, per contract.
   Property theorems only; every proof is [exact <lemma>] (lemmas: proofs/SelectProofs.v). *)
From Coq Require Import List ZArith NArith Bool.
From Coq.Strings Require Import Byte.
From L4.model Require Import Select.
From Coq Require Import Sorted.
From L4.proofs Require Import SelectProofs SelectHrwProofs SelectRRProofs.
Import ListNotations.
Open Scope Z_scope.

Definition is_available (pool : list upstream) (i : nat) : Prop :=
  exists u, nth_error pool i = Some u /\ available u = true.
Definition some_available (pool : list upstream) : Prop :=
  exists u, In u pool /\ available u = true.
Definition oracle_nonneg (draws : list Z) : Prop := Forall (fun x => 0 <= x) draws.

(* ---- first ---- *)
Theorem C10_first_sound : forall pool i, first pool = Sel i -> is_available pool i.
Proof. exact first_sound. Qed.
Theorem C10_first_complete : forall pool, some_available pool -> exists i, first pool = Sel i.
Proof. exact first_complete. Qed.
Theorem C10_first_earliest : forall pool i, first pool = Sel i ->
  forall j v, (j < i)%nat -> nth_error pool j = Some v -> available v = false.
Proof. exact first_earliest. Qed.
Theorem C10_first_no_panic : forall pool, first pool <> Panic.
Proof. exact first_nopanic. Qed.

(* ---- random ---- *)
Theorem C10_random_sound : forall pool ints i, random pool ints = Sel i -> is_available pool i.
Proof. exact random_sound. Qed.
Theorem C10_random_complete : forall pool ints, some_available pool -> exists i, random pool ints = Sel i.
Proof. exact random_complete. Qed.
Theorem C10_random_no_panic : forall pool ints, random pool ints <> Panic.
Proof. exact random_nopanic. Qed.

(* ---- least_conn ---- *)
Theorem C10_least_conn_sound : forall pool ints i, least_conn pool ints = Sel i -> is_available pool i.
Proof. exact least_conn_sound. Qed.
Theorem C10_least_conn_complete : forall pool ints, some_available pool -> exists i, least_conn pool ints = Sel i.
Proof. exact least_conn_complete. Qed.
Theorem C10_least_conn_minimal : forall pool ints i,
  (forall u, In u pool -> available u = true -> 0 <= totalConns u) ->
  least_conn pool ints = Sel i ->
  exists ui, nth_error pool i = Some ui /\
    forall u, In u pool -> available u = true -> totalConns ui <= totalConns u.
Proof. exact least_conn_minimal. Qed.
Theorem C10_least_conn_no_panic : forall pool ints, least_conn pool ints <> Panic.
Proof. exact least_conn_nopanic. Qed.

(* ---- round_robin ---- *)
Theorem C10_round_robin_sound : forall pool robin i robin',
  round_robin pool robin = (Sel i, robin') -> is_available pool i.
Proof. exact round_robin_sound. Qed.
(* complete as long as the uint32 counter does not wrap inside the scan (see the refutation below) *)
Theorem C10_round_robin_complete_partial : forall pool robin,
  0 <= robin -> robin + Z.of_nat (length pool) < two32 ->
  some_available pool -> exists i r', round_robin pool robin = (Sel i, r').
Proof. exact round_robin_complete. Qed.
(* each selection is the first available upstream, cyclically, after the previous position: hence every
   available upstream is visited once per cycle (no wrap) *)
Theorem C10_round_robin_next_available : forall pool robin i r',
  0 <= robin -> robin + Z.of_nat (length pool) < two32 ->
  round_robin pool robin = (Sel i, r') ->
  robin < r' <= robin + Z.of_nat (length pool) /\ i = Z.to_nat (r' mod Z.of_nat (length pool)) /\
  avail_pos pool r' = true /\ forall p, robin < p < r' -> avail_pos pool p = false.
Proof. exact round_robin_next. Qed.
(* over any sequence of selections (no wrap): every selection succeeds, the counters increase strictly,
   every selected upstream is available, and NO available position between the start and the last
   selection is skipped - so the run visits exactly the available upstreams in cyclic order *)
Theorem C10_round_robin_run : forall pool m robin,
  some_available pool -> 0 <= robin -> robin + (Z.of_nat m + 1) * Z.of_nat (length pool) < two32 ->
  let run := rr_run pool robin m in
  length run = m /\
  robin <= last_pos robin run <= robin + Z.of_nat m * Z.of_nat (length pool) /\
  (forall i r, In (i, r) run -> robin < r /\ i = Z.to_nat (r mod Z.of_nat (length pool)) /\ avail_pos pool r = true) /\
  (forall p, robin < p <= last_pos robin run -> avail_pos pool p = true -> In p (map snd run)) /\
  StronglySorted Z.lt (map snd run).
Proof. exact rr_run_spec. Qed.
(* ... and two visits less than one pool length apart are to different upstreams: once per cycle *)
Theorem C10_round_robin_once_per_cycle : forall (pool : list upstream) i1 r1 i2 r2,
  0 < Z.of_nat (length pool) -> 0 <= r1 -> r1 < r2 < r1 + Z.of_nat (length pool) ->
  i1 = Z.to_nat (r1 mod Z.of_nat (length pool)) -> i2 = Z.to_nat (r2 mod Z.of_nat (length pool)) -> i1 <> i2.
Proof. exact rr_distinct_within_cycle. Qed.
Theorem C10_round_robin_no_panic : forall pool robin, fst (round_robin pool robin) <> Panic.
Proof. exact round_robin_nopanic. Qed.

(* ---- ip_hash ---- *)
Theorem C10_ip_hash_sound : forall pool ip i, ip_hash pool ip = Sel i -> is_available pool i.
Proof. exact (hrw_sound fnv32a). Qed.
Theorem C10_ip_hash_complete : forall pool ip, some_available pool -> exists i, ip_hash pool ip = Sel i.
Proof. exact (hrw_complete fnv32a). Qed.
(* a client's upstream is kept when other upstreams leave the pool *)
Theorem C10_ip_hash_stable_under_removal : forall ip pool i u keep,
  ip_hash pool ip = Sel i -> nth_error pool i = Some u -> keep u = true ->
  exists j, ip_hash (filter keep pool) ip = Sel j /\ nth_error (filter keep pool) j = Some u.
Proof. exact (hrw_stable_under_removal fnv32a). Qed.
(* the choice is a function of the client address and of the available members only *)
Theorem C10_ip_hash_depends_on_available_only : forall ip pool,
  sel_u pool (ip_hash pool ip) = sel_u (filter available pool) (ip_hash (filter available pool) ip).
Proof. exact (hrw_depends_on_available_only fnv32a). Qed.
Theorem C10_ip_hash_no_panic : forall pool ip, ip_hash pool ip <> Panic.
Proof. exact (hrw_nopanic fnv32a). Qed.

(* ---- random_choose ---- *)
Theorem C10_random_choose_sound : forall choose pool draws final i,
  random_choose choose pool draws final = Sel i -> is_available pool i.
Proof. exact random_choose_sound. Qed.
Theorem C10_random_choose_complete : forall choose pool draws final,
  1 <= choose -> oracle_nonneg draws -> final_ok final ->
  some_available pool -> exists i, random_choose choose pool draws final = Sel i.
Proof. exact random_choose_complete. Qed.
Theorem C10_random_choose_no_panic : forall choose pool draws final,
  oracle_nonneg draws -> final_ok final -> random_choose choose pool draws final <> Panic.
Proof. exact random_choose_nopanic. Qed.

(* ---- non-vacuity: a pool with unavailable and available members ---- *)
Definition mk (conns unh fl mc mf : Z) : upstream :=
  {| peers := [{| numConns := conns; unhealthy := unh; fails := fl |}]; maxConns := mc; maxFails := mf; uname := [] |}.
Example C10_nonvacuous :
  let pool := [mk 0 1 0 0 0; mk 3 0 0 3 0; mk 2 0 5 0 5; mk 2 0 0 0 0; mk 1 0 0 4 2] in
  some_available pool /\ first pool = Sel 3%nat /\ least_conn pool [7; 7] = Sel 4%nat /\
  fst (round_robin pool 1) = Sel 3%nat /\ random_choose 2 pool [0] [0; 1] = Sel 4%nat.
Proof. cbv zeta. split; [exists (mk 2 0 0 0 0); split; [cbn; auto|reflexivity]|]. vm_compute. repeat split. Qed.

(* the uint32 wrap: completeness fails when the counter wraps inside one scan (recorded finding) *)
Theorem C10_round_robin_wrap_refuted : exists pool robin,
  some_available pool /\ fst (round_robin pool robin) = Nil.
Proof.
  exists [mk 0 1 0 0 0; mk 0 1 0 0 0; mk 0 0 0 0 0], (two32 - 2).
  split; [exists (mk 0 0 0 0 0); split; [cbn; auto|reflexivity]|]. vm_compute. reflexivity.
Qed.

Print Assumptions C10_first_sound.
Print Assumptions C10_first_complete.
Print Assumptions C10_first_earliest.
Print Assumptions C10_random_sound.
Print Assumptions C10_random_complete.
Print Assumptions C10_least_conn_sound.
Print Assumptions C10_least_conn_complete.
Print Assumptions C10_least_conn_minimal.
Print Assumptions C10_round_robin_sound.
Print Assumptions C10_round_robin_complete_partial.
Print Assumptions C10_round_robin_no_panic.
Print Assumptions C10_ip_hash_sound.
Print Assumptions C10_ip_hash_complete.
Print Assumptions C10_ip_hash_stable_under_removal.
Print Assumptions C10_ip_hash_depends_on_available_only.
Print Assumptions C10_round_robin_next_available.
Print Assumptions C10_round_robin_run.
Print Assumptions C10_round_robin_once_per_cycle.
Print Assumptions C10_random_choose_sound.
Print Assumptions C10_random_choose_complete.
Print Assumptions C10_random_choose_no_panic.
Print Assumptions C10_round_robin_wrap_refuted.
