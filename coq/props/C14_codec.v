(* C14 (WireGuard, Winbox, RDP) - the matchers accept exactly what the wire definition and the
   configured filters say.  Property theorems only (lemmas: proofs/Codec*Proofs.v).

   References: WireGuard - the two datagram shapes of the protocol the matcher documents (148-byte
   initiation, 32-byte keepalive, type field = message type with the reserved bits taken from the
   'zero' option).  Winbox - abstract auth message (user name, +r suffix, key, parity) with the
   documented well-formedness, encoded by the chunking of the wire definition, and the documented
   mode / username / username_regexp options.  RDP - TPKT + X.224 CR framing of the wire definition;
   the payload decision (cookie / token / custom info / negotiation request / correlation info) is
   tied to the code by the correspondence run and stated here on concrete messages. *)
From Coq Require Import List ZArith NArith Bool.
From Coq.Strings Require Import Byte.
From L4.gen Require Import Consts.
From L4.model Require Import GoBase CodecBase CodecWireGuard CodecWinbox CodecRdp.
From L4.proofs Require Import CodecWireGuardProofs CodecWinboxProofs CodecWinboxCodecProofs CodecWinboxMatchProofs CodecRdpMatchProofs CodecRdpRefProofs CodecRdpDecideProofs CodecRdpRoutingProofs.
Import ListNotations.
Local Open Scope nat_scope.

(* ---- WireGuard: all datagrams, all values of the zero option ---- *)
Theorem C14_wireguard_match_iff_ref : forall zero b, wg_match zero b = Yes <-> wg_ref zero b.
Proof. exact wg_match_iff_ref. Qed.

(* ---- Winbox: all byte strings, all configurations (the compiled username_regexp is any function) ---- *)
Theorem C14_winbox_match_iff_ref : forall c b,
  wb_match c b = Yes <-> exists m, auth_wf m /\ wb_passes c m /\ b = auth_to_bytes m /\ length b <= wb_auth_max.
Proof. exact wb_match_iff_ref. Qed.
Theorem C14_winbox_filters_iff_documented : forall c m, wb_filters c m = Yes <-> wb_passes c m.
Proof. exact wb_filters_iff. Qed.
(* auth_wf uses the user-name expression of the code; it is the documented grammar (first and last byte
   alphanumeric, inner bytes also _ . # - @), for every byte string - including the two-character names
   that the expression used to reject *)
Theorem C14_winbox_username_grammar_is_documented : forall u, username_ok u = doc_username_ok u.
Proof. exact username_ok_iff_doc. Qed.
Example C14_winbox_two_char_username_matches :
  username_ok [x61; x62] = true /\
  wb_match {| wc_std := true; wc_romon := true; wc_user := []; wc_rx := None |}
           (auth_to_bytes {| ma_parity := x01; ma_key := repeat x07 32; ma_user := [x61; x62] |}) = Yes /\
  username_ok [x61; x2d] = false /\ username_ok [x5f; x62] = false /\ username_ok [x61; x20; x62] = false /\ username_ok [x2b; x72] = false.
Proof. vm_compute. repeat split. Qed.

(* ---- RDP ---- *)
(* framing, every configuration: a request that matches is exactly the reference header for its own size
   followed by a payload of 1..248 bytes on which the payload decision says yes *)
Theorem C14_rdp_match_framing_partial : forall c b, rdp_match c b = Yes ->
  exists payload, 1 <= length payload <= 248 /\ b = ref_header (length b) ++ payload /\
                  rdp_decide c (ref_x224 (length b)) payload = Yes.
Proof. exact rdp_match_yes_framing. Qed.
Theorem C14_rdp_payload_decision_is_yes_or_no : forall c x payload, rdp_decide c x payload = Yes \/ rdp_decide c x payload = No.
Proof. exact rdp_decide_yes_no. Qed.

(* ---- RDP, the payload: independent reference = abstract message + encoder + filter predicates ----
   A payload is [routing element, ending at the first CR LF] ++ [what follows].  What follows is nothing, a
   negotiation request, or a negotiation request announcing a correlation info + that correlation info
   (tailmsg / enc_tail / wf_tail); the routing element is absent, a cookie "Cookie: mstshash=<hash>", a custom
   info text, or a routing token carrying "Cookie: msts=<ip>.<port>.0000" (enc_cookie / enc_custom / enc_token);
   the filter options are text_passes (cookie_hash[_regexp], custom_info[_regexp]), token_passes (cookie_ips,
   cookie_ports) and the mutual exclusion of the three families (no_*_filter). *)

(* every configuration, every byte string: Match = Yes exactly for a framed payload of 1..248 bytes whose
   routing part is accepted and whose remainder is a well-formed tail *)
Theorem C14_rdp_match_iff_ref : forall c b,
  rdp_match c b = Yes <->
  exists payload, 1 <= length payload <= 248 /\ b = rdp_frame payload /\
    routing_accepts c (ref_x224 (length b)) (firstn (find_crlf 0 payload) payload) = true /\
    exists t, wf_tail t /\ skipn (find_crlf 0 payload) payload = enc_tail t.
Proof. exact rdp_match_iff_ref. Qed.
Theorem C14_rdp_payload_splits_at_first_crlf : forall c x payload,
  rdp_decide c x payload = Yes <->
  routing_accepts c x (firstn (find_crlf 0 payload) payload) = true /\ tail_decide (skipn (find_crlf 0 payload) payload) = Yes.
Proof. exact rdp_decide_iff. Qed.
(* what follows the routing element, for every byte string *)
Theorem C14_rdp_tail_iff_ref : forall tail, tail_decide tail = Yes <-> exists t, wf_tail t /\ tail = enc_tail t.
Proof. exact tail_decide_iff. Qed.
(* the flag / protocol formulas of the code are the documented sets, on every value the fields can hold *)
Theorem C14_rdp_negreq_fields_iff_ref : forall r, (nr_flags r < 256)%N ->
  negreq_ok r = (nr_type r =? 1)%N && (nr_length r =? 8)%N && flags_ok (nr_flags r) && protos_ok (nr_protocols r).
Proof. exact negreq_ok_ref. Qed.

(* per kind of routing element: match (encode msg) = Yes <-> passes cfg msg /\ the rest is a well-formed tail;
   the premises are the well-formedness of the routing element (text without CR, sizes) - [tail] is ANY byte string *)
Theorem C14_rdp_none_match_iff_ref : forall c tail, find_crlf 0 tail = 0 -> 1 <= length tail <= 248 ->
  (rdp_match c (rdp_frame tail) = Yes <-> no_hash_filter c /\ no_ipport_filter c /\ no_info_filter c /\ tail_ref tail).
Proof. exact rdp_none_iff. Qed.
Theorem C14_rdp_cookie_match_iff_ref : forall c hash tail,
  hash <> [] -> forallb nocr hash = true -> length (enc_cookie hash ++ tail) <= 248 ->
  (rdp_match c (rdp_frame (enc_cookie hash ++ tail)) = Yes <->
   text_passes (cfg_hash c) (rc_hash_rx c) hash /\ no_ipport_filter c /\ no_info_filter c /\ tail_ref tail).
Proof. exact rdp_cookie_iff. Qed.
Theorem C14_rdp_custom_match_iff_ref : forall c info tail,
  info <> [] -> forallb nocr info = true -> length (enc_custom info ++ tail) <= 248 ->
  has_prefix info cookie_prefix = false -> nth 0 info x00 <> x03 ->
  (rdp_match c (rdp_frame (enc_custom info ++ tail)) = Yes <->
   no_hash_filter c /\ no_ipport_filter c /\ text_passes (cfg_info c) (rc_info_rx c) info /\ tail_ref tail).
Proof. exact rdp_custom_iff. Qed.
Theorem C14_rdp_token_match_iff_ref : forall c ipd portd tail,
  digits_ok ipd two32 = true -> digits_ok portd two16 = true -> 4 <= length ipd + length portd <= 17 -> length tail <= 199 ->
  (rdp_match c (rdp_frame (enc_token ipd portd ++ tail)) = Yes <->
   no_hash_filter c /\ token_passes c ipd portd /\ no_info_filter c /\ tail_ref tail).
Proof. exact rdp_token_iff. Qed.

(* nothing follows the correlation info, nor a negotiation request that does not announce one: every
   configuration, every routing part R ending at the first CR LF (or empty), every well-formed tail, every junk *)
Theorem C14_rdp_nothing_after_corrinfo : forall c x R f p id junk,
  wf_tail (TNegCorr f p id) -> junk <> [] -> find_crlf 0 (R ++ enc_tail (TNegCorr f p id) ++ junk) = length R ->
  rdp_decide c x (R ++ enc_tail (TNegCorr f p id) ++ junk) <> Yes.
Proof. exact rdp_trailing_after_corrinfo_rejected. Qed.
Theorem C14_rdp_nothing_after_negreq_without_flag : forall c x R f p junk,
  wf_tail (TNeg f p) -> junk <> [] -> find_crlf 0 (R ++ enc_tail (TNeg f p) ++ junk) = length R ->
  rdp_decide c x (R ++ enc_tail (TNeg f p) ++ junk) <> Yes.
Proof. exact rdp_trailing_after_negreq_rejected. Qed.

(* non-vacuity: the premises of the per-kind theorems hold for ordinary requests, and both outcomes occur *)
Definition ipd_10_0_0_10 : list byte := [x31; x36; x37; x37; x37; x32; x31; x37; x30].   (* "167772170" *)
Definition portd_3389 : list byte := [x31; x35; x36; x32; x39].                          (* "15629" *)
Definition cfg_none := {| rc_hash := []; rc_hash_rx := None; rc_ips := []; rc_ports := []; rc_info := []; rc_info_rx := None |}.
Example C14_rdp_ref_nonvacuous :
  wf_tail (TNeg 0 3) /\ wf_tail (TNegCorr 11 31 (repeat x11 16)) /\ ~ wf_tail (TNeg 4 3) /\ ~ wf_tail (TNeg 0 2) /\
  digits_ok ipd_10_0_0_10 two32 = true /\ digits_ok portd_3389 two16 = true /\ token_ip ipd_10_0_0_10 = 167772170%N /\ token_port portd_3389 = 3389%N /\
  find_crlf 0 (enc_tail (TNegCorr 8 3 (repeat x11 16))) = 0 /\
  rdp_match cfg_none (rdp_frame (enc_token ipd_10_0_0_10 portd_3389 ++ enc_tail (TNeg 0 3))) = Yes /\
  rdp_match {| rc_hash := []; rc_hash_rx := None; rc_ips := [P4 167772160 8]; rc_ports := [3390%N]; rc_info := []; rc_info_rx := None |}
            (rdp_frame (enc_token ipd_10_0_0_10 portd_3389 ++ enc_tail (TNeg 0 3))) = No /\
  rdp_match cfg_none (rdp_frame (enc_cookie [x61; x62] ++ enc_tail (TNegCorr 8 1 (repeat x11 16)))) = Yes /\
  rdp_match cfg_none (rdp_frame (enc_custom [x6c; x62] ++ enc_tail TNone)) = Yes.
Proof. vm_compute. repeat split; try discriminate; try (intros (H & _); discriminate); try (intros (_ & _ & _ & H); discriminate). Qed.

(* the payload decision on concrete requests: each optional element and each filter family *)
Definition c0 := {| rc_hash := []; rc_hash_rx := None; rc_ips := []; rc_ports := []; rc_info := []; rc_info_rx := None |}.
Definition hdr_for (payload : list byte) : list byte := ref_header (11 + length payload) ++ payload.
Definition cookie_abcd : list byte := cookie_prefix ++ [x61; x62; x63; x64; x0d; x0a].
Definition negreq_tls : list byte := [x01; x00; x08; x00; x03; x00; x00; x00].
Definition negreq_corr : list byte := [x01; x08; x08; x00; x03; x00; x00; x00].
Definition corr_ok_bytes : list byte := [x06; x00; x24; x00] ++ repeat x11 16 ++ repeat x00 16.
(* "Cookie: msts=167772170.15629.0000": 10.0.0.10 port 3389 in the reversed-byte decimal notation *)
Definition token_10_0_0_10_3389 : list byte :=
  let ck := token_prefix ++ [x31; x36; x37; x37; x37; x32; x31; x37; x30; x2e; x31; x35; x36; x32; x39; x2e; x30; x30; x30; x30; x0d; x0a] in
  [x03; x00; x00; nb (N.of_nat (11 + length ck)); nb (N.of_nat (6 + length ck)); xe0; x00; x00; x00; x00; x00] ++ ck.
Example C14_rdp_examples :
  rdp_match c0 (hdr_for negreq_tls) = Yes /\
  rdp_match c0 (hdr_for (cookie_abcd ++ negreq_tls)) = Yes /\
  rdp_match c0 (hdr_for (cookie_abcd ++ negreq_corr ++ corr_ok_bytes)) = Yes /\
  rdp_match c0 (hdr_for (cookie_abcd ++ negreq_corr)) = No /\
  rdp_match c0 (hdr_for (cookie_abcd ++ negreq_tls ++ corr_ok_bytes)) = No /\
  rdp_match {| rc_hash := [x61; x62; x63; x64]; rc_hash_rx := None; rc_ips := []; rc_ports := []; rc_info := []; rc_info_rx := None |}
            (hdr_for (cookie_abcd ++ negreq_tls)) = Yes /\
  rdp_match {| rc_hash := [x61; x62; x63]; rc_hash_rx := None; rc_ips := []; rc_ports := []; rc_info := []; rc_info_rx := None |}
            (hdr_for (cookie_abcd ++ negreq_tls)) = No /\
  rdp_match {| rc_hash := []; rc_hash_rx := None; rc_ips := [P4 167772160 8]; rc_ports := [3389%N]; rc_info := []; rc_info_rx := None |}
            (hdr_for (token_10_0_0_10_3389 ++ negreq_tls)) = Yes /\
  rdp_match {| rc_hash := []; rc_hash_rx := None; rc_ips := [P4 167772160 8]; rc_ports := [3390%N]; rc_info := []; rc_info_rx := None |}
            (hdr_for (token_10_0_0_10_3389 ++ negreq_tls)) = No /\
  rdp_match {| rc_hash := []; rc_hash_rx := None; rc_ips := [P4 3232235776 16]; rc_ports := []; rc_info := []; rc_info_rx := None |}
            (hdr_for (token_10_0_0_10_3389 ++ negreq_tls)) = No /\
  rdp_match {| rc_hash := []; rc_hash_rx := None; rc_ips := []; rc_ports := []; rc_info := [x6c; x62]; rc_info_rx := None |}
            (hdr_for ([x6c; x62; x0d; x0a] ++ negreq_tls)) = Yes /\
  rdp_match {| rc_hash := []; rc_hash_rx := None; rc_ips := []; rc_ports := []; rc_info := [x6c; x62]; rc_info_rx := None |}
            (hdr_for (cookie_abcd ++ negreq_tls)) = No.
Proof. vm_compute. repeat split. Qed.

(* the correlation info is the last element: bytes between it and the declared end of the request are rejected,
   like bytes after a negotiation request without the correlation flag *)
Example C14_rdp_trailing_after_corrinfo_rejected :
  rdp_match c0 (hdr_for (negreq_corr ++ corr_ok_bytes)) = Yes /\
  forallb (fun junk => verdict_eqb (rdp_match c0 (hdr_for (negreq_corr ++ corr_ok_bytes ++ junk))) No &&
                       verdict_eqb (rdp_match c0 (hdr_for (cookie_abcd ++ negreq_corr ++ corr_ok_bytes ++ junk))) No &&
                       verdict_eqb (rdp_match c0 (hdr_for (negreq_tls ++ junk))) No)
          [[x03]; [x00]; [x00; x00]; [x0a; x0d]; [x01; x00; x08; x00; x00; x00; x00; x00]; corr_ok_bytes] = true.
Proof. vm_compute. split; reflexivity. Qed.

Print Assumptions C14_wireguard_match_iff_ref.
Print Assumptions C14_winbox_match_iff_ref.
Print Assumptions C14_winbox_filters_iff_documented.
Print Assumptions C14_winbox_username_grammar_is_documented.
Print Assumptions C14_winbox_two_char_username_matches.
Print Assumptions C14_rdp_match_framing_partial.
Print Assumptions C14_rdp_payload_decision_is_yes_or_no.
Print Assumptions C14_rdp_match_iff_ref.
Print Assumptions C14_rdp_payload_splits_at_first_crlf.
Print Assumptions C14_rdp_tail_iff_ref.
Print Assumptions C14_rdp_negreq_fields_iff_ref.
Print Assumptions C14_rdp_none_match_iff_ref.
Print Assumptions C14_rdp_cookie_match_iff_ref.
Print Assumptions C14_rdp_custom_match_iff_ref.
Print Assumptions C14_rdp_token_match_iff_ref.
Print Assumptions C14_rdp_nothing_after_corrinfo.
Print Assumptions C14_rdp_nothing_after_negreq_without_flag.
Print Assumptions C14_rdp_ref_nonvacuous.
Print Assumptions C14_rdp_examples.
Print Assumptions C14_rdp_trailing_after_corrinfo_rejected.
