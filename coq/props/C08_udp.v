(* C08 (UDP half) - datagram arrays of udpBufPool are never reused while an association still
   refers to them: every array is Put at most once per Get, no queued packet refers to an array
   of the pool, and an association reads exactly the bytes of the datagrams dispatched to it, all
   of which came from its own client - for every interleaving of the reader goroutine, the
   dispatch loop and the handlers.  Model: model/UdpPool.v with the discipline facts read from
   gen/Shape.v; lemmas: proofs/UdpPoolProofs.v. *)
From Coq Require Import List Arith Bool String.
From Coq.Strings Require Import Byte.
From L4 Require Import Hex.
From L4.model Require Import UdpPool.
From L4.proofs Require Import UdpPoolProofs.
Import ListNotations.
Local Open Scope string_scope.

(* what the translator reads from packetConn.Read/Close and servePacket today *)
Theorem C08_udp_shape_ok : good_udisc udp_disc.
Proof. exact udp_discipline_good. Qed.

Theorem C08_udp_consts_ok : 0 < dgram_cap.
Proof. exact udp_consts_ok. Qed.

Theorem C08_udp_pool_noninterference : forall d, good_udisc d -> forall es,
  let s := urun d uinit es in
  NoDup (ufree s) /\
  (forall b, In b (ufree s) ->
     (forall b' n g, In (b', n, g) (uchan s) -> b' <> b) /\
     (forall p g a, upend s = Some (p, g, a) -> fst (upk s p) <> b) /\
     (forall a st p g, uas s a = Some st -> In (p, g) (a_q st) \/ a_last st = Some (p, g) -> fst (upk s p) <> b)) /\
  (forall a st, uas s a = Some st -> a_got st = a_exp st /\ forall g, In g (aghosts st) -> g_from g = a_addr st).
Proof. exact udp_pool_noninterference. Qed.

Theorem C08_udp_pool_noninterference_today : forall es,
  let s := urun udp_disc uinit es in
  NoDup (ufree s) /\
  (forall b, In b (ufree s) ->
     (forall b' n g, In (b', n, g) (uchan s) -> b' <> b) /\
     (forall p g a, upend s = Some (p, g, a) -> fst (upk s p) <> b) /\
     (forall a st p g, uas s a = Some st -> In (p, g) (a_q st) \/ a_last st = Some (p, g) -> fst (upk s p) <> b)) /\
  (forall a st, uas s a = Some st -> a_got st = a_exp st /\ forall g, In g (aghosts st) -> g_from g = a_addr st).
Proof. exact udp_pool_noninterference_today. Qed.

Theorem C08_udp_no_shared_array : forall d, good_udisc d -> forall es a1 a2 st1 st2 b,
  let s := urun d uinit es in
  uas s a1 = Some st1 -> uas s a2 = Some st2 -> In b (arefs s st1) -> In b (arefs s st2) ->
  a1 = a2 /\ NoDup (arefs s st1).
Proof. exact udp_no_shared_array. Qed.

(* lastPacket not cleared when the remainder is consumed: client 1's 3-byte datagram is read in two
   Reads, the association is closed (second Put of array 0), then the datagrams of clients 2 and 3
   both get array 0 and client 2's association reads client 3's bytes *)
Definition ex_put_twice : list uevent :=
  [ URecv 1 (unhex "414141") 0; UDispatch; USend; URead 0 2; URead 0 2; UClose 0;
    URecv 2 (unhex "424242") 0; UDispatch; USend;
    URecv 3 (unhex "434343") 0; UDispatch; USend; URead 1 3 ].

Theorem C08_udp_put_twice_refuted :
  exists es, ~ NoDup (ufree (urun put_twice_udisc uinit (firstn 6 es))) /\
             ugot (urun put_twice_udisc uinit es) 1 <> uexp (urun put_twice_udisc uinit es) 1.
Proof.
  exists ex_put_twice. split.
  - vm_compute. intro H. inversion H as [|? ? Hn _]. apply Hn. now left.
  - vm_compute. discriminate.
Qed.

Example C08_udp_put_twice_example :
  ufree (urun put_twice_udisc uinit (firstn 6 ex_put_twice)) = [0; 0] /\
  ugot (urun put_twice_udisc uinit ex_put_twice) 1 = unhex "434343" /\
  ugot (urun clean_udisc uinit ex_put_twice) 1 = unhex "424242" /\
  ubadget (urun clean_udisc uinit ex_put_twice) = true.
Proof. vm_compute. repeat split. Qed.

(* one packet variable for all datagrams: the struct queued for client 1's association is
   overwritten by client 2's datagram before it is read *)
Definition ex_shared_pkt : list uevent :=
  [ URecv 1 (unhex "414141") 0; UDispatch; USend; URecv 2 (unhex "42424242") 1; UDispatch; USend; URead 0 3 ].

Theorem C08_udp_shared_packet_refuted :
  exists es a, ugot (urun shared_pkt_udisc uinit es) a <> uexp (urun shared_pkt_udisc uinit es) a.
Proof. exists ex_shared_pkt, 0. vm_compute. discriminate. Qed.

Example C08_udp_shared_packet_example :
  ugot (urun shared_pkt_udisc uinit ex_shared_pkt) 0 = unhex "424242" /\
  ugot (urun udp_disc uinit ex_shared_pkt) 0 = unhex "414141".
Proof. vm_compute. repeat split. Qed.

(* non-vacuity: partial reads, a datagram dropped because its association ended meanwhile, a new
   association of the same client, arrays going round *)
Definition ex_udp_good : list uevent :=
  [ URecv 1 (unhex "4141414141") 0; UDispatch; USend; URecv 2 (unhex "4242") 1; UDispatch; USend;
    URead 0 2; URecv 1 (unhex "6161") 2; UDispatch; URead 0 9; UClose 0; USend; UForget 0;
    URecv 1 (unhex "7171") 2; UDispatch; USend; URead 1 1; URead 2 5; URead 1 1 ].

Example C08_udp_example_good :
  let s := urun udp_disc uinit ex_udp_good in
  ugot s 0 = unhex "4141414141" /\ ugot s 1 = unhex "4242" /\ ugot s 2 = unhex "7171" /\
  ufree s = [1; 2; 0] /\ ubadget s = false.
Proof. vm_compute. repeat split. Qed.

Print Assumptions C08_udp_shape_ok.
Print Assumptions C08_udp_consts_ok.
Print Assumptions C08_udp_pool_noninterference.
Print Assumptions C08_udp_pool_noninterference_today.
Print Assumptions C08_udp_no_shared_array.
Print Assumptions C08_udp_put_twice_refuted.
Print Assumptions C08_udp_put_twice_example.
Print Assumptions C08_udp_shared_packet_refuted.
Print Assumptions C08_udp_shared_packet_example.
Print Assumptions C08_udp_example_good.
