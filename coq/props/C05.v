(* Property C05 — matching is bounded by timeout and buffer limit, never early, fails closed.

   Theorems about model/Router.v's [compile] run over the timed networks of model/Timing.v (TCP
   read-deadline semantics; the UDP packetConn emulation with the storage granularity found in
   the source), for ALL route lists, timeouts, start instants and timed arrival schedules (any
   start state of the network).  [own_tr]/[own_evs] are what one invocation appended to the
   (timed) trace.  The tie to the Go code: the C05 real-time engine (corr/C05Corr.v) and the
   C02 router engine (corr/C02Corr.v), which also evaluates the untimed parts of the property. *)
From Coq Require Import List NArith ZArith Bool Arith.
From Coq.Strings Require Import Byte.
From L4.model Require Import GoBase Router RouterSpec Timing.
From L4.gen Require Import Consts Shape.
From L4.proofs Require Import RouterProofs TimingProofs.
Import ListNotations.
Open Scope Z_scope.

(* the generated constants and shape facts the proofs rely on (breaks when the source changes incompatibly) *)
Theorem consts_and_shape_ok :
  ((1 <= MAXB)%nat /\ (1 <= CHUNK)%nat /\ (CHUNK <= MAXB)%nat /\
   layer4_MaxMatchingBytes = Z.of_nat MAXB /\ layer4_prefetchChunkSize = Z.of_nat CHUNK /\
   0 < layer4_MatchingTimeoutDefault /\ 0 < udp_granularity /\ 0 <= udp_idle) /\
  (layer4_compile_arms_at_loop_label = true /\ layer4_compile_clears_on_match = true /\
   layer4_compile_clears_before_fallback = true).
Proof. exact (conj consts_ok shape_ok). Qed.

(* Until its first route runs (or it drops the connection, or hands it to the fallback) every step of
   an invocation that started at instant T with timeout t happens no later than T + t: however
   slowly or copiously the client sends, the matching phase ends by the deadline. *)
Theorem matching_ends_by_deadline_tcp : forall fuel d rs t (s : st tnet), 0 <= t ->
  Forall (fun te => fst te <= tnow (nt s) + t)
         (until_run d (own_tr s (tcp_compile fuel d rs t (fun s' => Cont s') s))).
Proof. exact c05_ends_by_deadline_tcp. Qed.

Theorem matching_ends_by_deadline_udp : forall fuel d rs t (s : st tnet), 0 <= t ->
  Forall (fun te => fst te <= tnow (nt s) + t)
         (until_run d (own_tr s (udp_compile udp_rechecks udp_granularity fuel d rs t (fun s' => Cont s') s))).
Proof. exact (c05_ends_by_deadline_udp udp_rechecks udp_granularity). Qed.

(* the matching buffer never holds more than MaxMatchingBytes - 1 + prefetchChunkSize bytes: at the end,
   and whenever a route runs, a cached verdict is used or the fallback is called *)
Theorem buffer_bounded_tcp : forall fuel d rs t (s : st tnet), buf_ok tnet s ->
  buf_ok tnet (res_st (tcp_compile fuel d rs t (fun s' => Cont s') s)) /\
  Forall ev_buf_ok (own_evs s (tcp_compile fuel d rs t (fun s' => Cont s') s)).
Proof. exact tcp_buffer_bounded. Qed.

Theorem buffer_bounded_udp : forall fuel d rs t (s : st tnet), buf_ok tnet s ->
  buf_ok tnet (res_st (udp_compile udp_rechecks udp_granularity fuel d rs t (fun s' => Cont s') s)) /\
  Forall ev_buf_ok (own_evs s (udp_compile udp_rechecks udp_granularity fuel d rs t (fun s' => Cont s') s)).
Proof. exact (udp_buffer_bounded udp_rechecks udp_granularity). Qed.

Theorem buffer_bound_value : Z.of_nat BUFB = layer4_MaxMatchingBytes - 1 + layer4_prefetchChunkSize.
Proof. exact bufb_value. Qed.

(* fails closed: a drop (timeout, buffer full, network or matcher error) is the last event of the
   invocation at its level, its fallback is not called and the connection is not handed on (the caller,
   Server.handle, closes it: checked by the engines) — for any network *)
Theorem fails_closed : forall net now set_dl nread npush fuel d rs t (s : st net) w,
  In (EDrop d w) (own_evs s (compile net now set_dl nread npush fuel d rs t (fun s' => Cont s') s)) ->
  is_cont (compile net now set_dl nread npush fuel d rs t (fun s' => Cont s') s) = false /\
  count_fb d (own_evs s (compile net now set_dl nread npush fuel d rs t (fun s' => Cont s') s)) = 0%nat /\
  exists l', proj d (own_evs s (compile net now set_dl nread npush fuel d rs t (fun s' => Cont s') s)) = l' ++ [EDrop d w].
Proof. exact c02_never_after_drop. Qed.

(* not early, TCP: an abort by timeout of an invocation started at T with timeout t happens at or after T + t *)
Theorem not_early_tcp : forall fuel d rs t (s : st tnet) tm,
  In (tm, EDrop d DTimeout) (own_tr s (tcp_compile fuel d rs t (fun s' => Cont s') s)) -> tnow (nt s) + t <= tm.
Proof. exact c05_not_early_tcp. Qed.

(* not early, UDP: a statement about the packetConn machine of model/Timing.v (stored deadline with the
   granularity found in the source, deadline timer whose channel may hold a stale tick, recheck of the stored
   deadline on a tick as found in the source).  It holds because the source stores nanoseconds (generated
   granularity = 1; repaired by /repo commit 22876ab) and rechecks the deadline when the timer ticks
   (generated layer4_pc_read_timer_tick_rechecks_deadline = true). *)
Theorem not_early_udp : forall fuel d rs t (s : st tnet) tm,
  In (tm, EDrop d DTimeout) (own_tr s (udp_compile udp_rechecks udp_granularity fuel d rs t (fun s' => Cont s') s)) -> tnow (nt s) + t <= tm.
Proof. exact (fun fuel d rs t s tm => c05_not_early_udp udp_rechecks udp_granularity fuel d rs t s tm (conj eq_refl eq_refl)). Qed.

(* ... which whole-second storage (Go's t.Unix(), the code before the repair) does not give: connection start
   at x.86 s, timeout 0.5 s, one datagram at +0.25 s: matching is abandoned at +0.25 s *)
Theorem not_early_udp_whole_seconds_refuted :
  exists tm, In (tm, EDrop 0 DTimeout) (tr (res_st udp_witness)) /\ tm < 860 * ms + 500 * ms.
Proof. exact (ex_intro _ (1110 * ms) udp_seconds_early). Qed.

(* ... nor does a machine that takes every timer tick for a timeout (no recheck): after a non-terminal match
   cleared the deadline a stale tick is left in the timer channel; the next undecided route arms the deadline
   again and the next read reports a timeout at +0 ms (timeout 400 ms).  With the recheck: exactly at +400 ms. *)
Theorem not_early_udp_tick_without_recheck_refuted :
  (exists tm, In (tm, EDrop 0 DTimeout) (tr (res_st udp_tick_witness)) /\ tm < 500 * ms + 400 * ms) /\
  first_drop (tr (res_st (udp_serve_m true 1 20 nonterm_undecided_routes (400 * ms) (t_init (500 * ms) [(500 * ms, [x01])] (100000 * ms)))))
  = Some (500 * ms + 400 * ms, DTimeout).
Proof. exact (conj (ex_intro _ (500 * ms) udp_tick_early) udp_tick_ok). Qed.

(* once a route has matched, and before any fallback is called, the deadline is cleared and not re-armed:
   every route run and every fallback call happens with the deadline cleared, whatever the deadline state [a]
   the invocation started in (includes the empty route list, repaired by /repo commit 9406560) — any network *)
Theorem deadline_cleared_before_handlers : forall net now set_dl nread npush fuel d rs t (s : st net) a pre e post,
  own_evs s (compile net now set_dl nread npush fuel d rs t (fun s' => Cont s') s) = pre ++ e :: post ->
  is_hev e = true -> armed_after a pre = false.
Proof. exact (fun net now set_dl nread npush fuel d rs t s a pre e post => c05_deadline_cleared_before_handlers net now set_dl nread npush fuel d rs t s a pre e post eq_refl). Qed.

(* fails closed, globally: a drop at any nesting depth is the very last event and nothing is handed on *)
Theorem drop_ends_everything : forall net now set_dl nread npush fuel d rs t (s : st net) pre e post,
  own_evs s (compile net now set_dl nread npush fuel d rs t (fun s' => Cont s') s) = pre ++ e :: post ->
  is_anydrop e = true ->
  post = [] /\ is_cont (compile net now set_dl nread npush fuel d rs t (fun s' => Cont s') s) = false.
Proof. exact (fun net now set_dl nread npush fuel d rs t s pre e post => c05_drop_ends_everything net now set_dl nread npush fuel d rs t s pre e post eq_refl). Qed.

Example empty_route_list_clears_deadline :
  evs (res_st (s_serve 5 [] [] [])) = [EArm; EClear; EFallback 0 []].
Proof. vm_compute. reflexivity. Qed.

(* totality of the timed runs: with fuel >= need_rs rs neither timed instance runs out of fuel (arrivals carry
   at least one byte each) *)
Theorem timed_run_total_tcp : forall fuel d rs t next (s : st tnet), fuel_ok rs fuel -> arrivals_nonempty (nt s) ->
  (forall s', is_exh (next s') = false) -> is_exh (tcp_compile fuel d rs t next s) = false.
Proof. exact tcp_compile_total. Qed.

Theorem timed_run_total_udp : forall fuel d rs t next (s : st tnet), fuel_ok rs fuel -> arrivals_nonempty (nt s) ->
  (forall s', is_exh (next s') = false) -> is_exh (udp_compile udp_rechecks udp_granularity fuel d rs t next s) = false.
Proof. exact (udp_compile_total udp_rechecks udp_granularity). Qed.

(* hypotheses are satisfiable / the theorems are not vacuous: a trickling client over TCP is dropped exactly at the deadline *)
Example c05_example_tcp :
  first_drop (tr (res_st (tcp_serve 20 undecided_routes (500 * ms)
     (t_init (860 * ms) [(860 * ms, [x01]); (1110 * ms, [x02])] (100000 * ms))))) = Some (1360 * ms, DTimeout).
Proof. vm_compute. reflexivity. Qed.

Print Assumptions consts_and_shape_ok.
Print Assumptions matching_ends_by_deadline_tcp.
Print Assumptions matching_ends_by_deadline_udp.
Print Assumptions buffer_bounded_tcp.
Print Assumptions buffer_bounded_udp.
Print Assumptions buffer_bound_value.
Print Assumptions fails_closed.
Print Assumptions not_early_tcp.
Print Assumptions not_early_udp.
Print Assumptions not_early_udp_whole_seconds_refuted.
Print Assumptions not_early_udp_tick_without_recheck_refuted.
Print Assumptions deadline_cleared_before_handlers.
Print Assumptions drop_ends_everything.
Print Assumptions empty_route_list_clears_deadline.
Print Assumptions timed_run_total_tcp.
Print Assumptions timed_run_total_udp.
Print Assumptions c05_example_tcp.
