(* C06 - Matchers are pure functions of the prefix, insensitive to fragmentation: the small
   stream matchers.  A model is a Gallina function of the prefetched bytes, so determinism and
   "reads nothing but the prefix" hold by construction (the engine checks the real matchers for
   socket reads, restored stream and repeatability).  Proved here, for every configuration:
     no_stable                     No on a prefix stays No on every extension
     yes_not_rejected_on_prefix    a stream that matches whole is never answered No on a fragment
   both from the stronger fact that every decided verdict is permanent.
   Property theorems only (lemmas: proofs/MatchSmallProofs.v). *)
From Coq Require Import String.
From Coq Require Import List NArith ZArith Bool.
From Coq.Strings Require Import Byte.
From L4 Require Import Hex.
From L4.model Require Import GoBase MatchSmall.
From L4.proofs Require Import MatchSmallLemmas MatchSmallProofs.
Import ListNotations.

Theorem C06_ssh_no_stable : no_stable ssh_match.
Proof. exact (stable_yn_no_stable _ (decided_stable_yn _ ssh_stable)). Qed.
Theorem C06_ssh_fragments : yes_not_rejected_on_prefix ssh_match.
Proof. exact (stable_yn_yes_not_rejected _ (decided_stable_yn _ ssh_stable)). Qed.

Theorem C06_xmpp_no_stable : no_stable xmpp_match.
Proof. exact (stable_yn_no_stable _ (decided_stable_yn _ xmpp_stable)). Qed.
Theorem C06_xmpp_fragments : yes_not_rejected_on_prefix xmpp_match.
Proof. exact (stable_yn_yes_not_rejected _ (decided_stable_yn _ xmpp_stable)). Qed.

Theorem C06_postgres_no_stable : no_stable pg_match.
Proof. exact (stable_yn_no_stable _ (decided_stable_yn _ pg_stable)). Qed.
Theorem C06_postgres_fragments : yes_not_rejected_on_prefix pg_match.
Proof. exact (stable_yn_yes_not_rejected _ (decided_stable_yn _ pg_stable)). Qed.
Theorem C06_postgres_decided_is_final : forall p s, pg_match p <> More -> pg_match (p ++ s) = pg_match p.
Proof. exact pg_stable. Qed.

Theorem C06_proxy_protocol_no_stable : no_stable pp_match.
Proof. exact (stable_yn_no_stable _ (decided_stable_yn _ pp_stable)). Qed.
Theorem C06_proxy_protocol_fragments : yes_not_rejected_on_prefix pp_match.
Proof. exact (stable_yn_yes_not_rejected _ (decided_stable_yn _ pp_stable)). Qed.

Theorem C06_socks4_no_stable : forall cfg, no_stable (socks4_match cfg).
Proof. exact (fun cfg => stable_yn_no_stable _ (decided_stable_yn _ (socks4_stable cfg))). Qed.
Theorem C06_socks4_fragments : forall cfg, yes_not_rejected_on_prefix (socks4_match cfg).
Proof. exact (fun cfg => stable_yn_yes_not_rejected _ (decided_stable_yn _ (socks4_stable cfg))). Qed.

Theorem C06_socks5_no_stable : forall auth, no_stable (socks5_match auth).
Proof. exact (fun auth => stable_yn_no_stable _ (decided_stable_yn _ (socks5_stable auth))). Qed.
Theorem C06_socks5_fragments : forall auth, yes_not_rejected_on_prefix (socks5_match auth).
Proof. exact (fun auth => stable_yn_yes_not_rejected _ (decided_stable_yn _ (socks5_stable auth))). Qed.

Theorem C06_regexp_no_stable : forall re count, no_stable (regexp_match re count).
Proof. exact (fun re count => stable_yn_no_stable _ (decided_stable_yn _ (regexp_stable re count))). Qed.
Theorem C06_regexp_fragments : forall re count, yes_not_rejected_on_prefix (regexp_match re count).
Proof. exact (fun re count => stable_yn_yes_not_rejected _ (decided_stable_yn _ (regexp_stable re count))). Qed.

Theorem C06_tls_gate_no_stable : forall inner, no_stable (tls_match inner).
Proof. exact (fun inner => stable_yn_no_stable _ (decided_stable_yn _ (tls_stable inner))). Qed.
Theorem C06_tls_gate_fragments : forall inner, yes_not_rejected_on_prefix (tls_match inner).
Proof. exact (fun inner => stable_yn_yes_not_rejected _ (decided_stable_yn _ (tls_stable inner))). Qed.

Theorem C06_http_gate_no_stable : no_stable http_gate.
Proof. exact (stable_yn_no_stable _ http_gate_stable). Qed.
Theorem C06_http_gate_fragments : yes_not_rejected_on_prefix http_gate.
Proof. exact (stable_yn_yes_not_rejected _ http_gate_stable). Qed.

(* not: inherited from whatever it negates, for every nesting of matcher sets *)
Theorem C06_not_no_stable : forall sets, Forall (Forall stable_yn) sets -> no_stable (not_match sets).
Proof. exact (fun sets H => stable_yn_no_stable _ (not_stable sets H)). Qed.
Theorem C06_not_fragments : forall sets, Forall (Forall stable_yn) sets -> yes_not_rejected_on_prefix (not_match sets).
Proof. exact (fun sets H => stable_yn_yes_not_rejected _ (not_stable sets H)). Qed.
Theorem C06_not_composes : forall sets, Forall (Forall stable_yn) sets -> stable_yn (not_match sets).
Proof. exact not_stable. Qed.

(* MatcherSets.AnyMatch (the OR over a route's matcher sets): a set that still needs data stops the
   evaluation, so a definite answer is permanent here too *)
Theorem C06_anymatch_no_stable : forall sets, Forall (Forall stable_yn) sets -> no_stable (any_match sets).
Proof. exact (fun sets H => stable_yn_no_stable _ (any_stable sets H)). Qed.
Theorem C06_anymatch_fragments : forall sets, Forall (Forall stable_yn) sets -> yes_not_rejected_on_prefix (any_match sets).
Proof. exact (fun sets H => stable_yn_yes_not_rejected _ (any_stable sets H)). Qed.
(* an OR that skipped a set still waiting for data would reject a fragment of a stream that matches whole *)
Example C06_anymatch_skipping_need_more_refuted :
  let skipping p := match ssh_match p with Yes => Yes | _ => socks5_match [0%N] p end in
  skipping (unhex "5353") = No /\ skipping (unhex "5353482d32") = Yes /\
  any_match [[ssh_match]; [socks5_match [0%N]]] (unhex "5353") = More.
Proof. vm_compute. repeat split; reflexivity. Qed.

(* non-vacuity: verdict chains over the prefixes of one stream do go More -> No and More -> Yes *)
Example C06_nonvacuous :
  map (fun n => ssh_match (firstn n (unhex "5353482d322e30"))) [0; 3; 4; 7]%nat = [More; More; Yes; Yes] /\
  map (fun n => ssh_match (firstn n (unhex "5353487832"))) [3; 4; 5]%nat = [More; No; No] /\
  map (fun n => pg_match (firstn n (unhex "0000000f0003000075736572006100"))) [3; 4; 14; 15]%nat = [More; More; More; Yes] /\
  map (fun n => not_match [[ssh_match]] (firstn n (unhex "5353482d32"))) [3; 4; 5]%nat = [More; No; No] /\
  stable_yn ssh_match.
Proof. split; [|split; [|split; [|split]]]; try (vm_compute; reflexivity). exact (decided_stable_yn _ ssh_stable). Qed.

Print Assumptions C06_ssh_no_stable.
Print Assumptions C06_ssh_fragments.
Print Assumptions C06_xmpp_no_stable.
Print Assumptions C06_xmpp_fragments.
Print Assumptions C06_postgres_no_stable.
Print Assumptions C06_postgres_fragments.
Print Assumptions C06_proxy_protocol_no_stable.
Print Assumptions C06_proxy_protocol_fragments.
Print Assumptions C06_socks4_no_stable.
Print Assumptions C06_socks4_fragments.
Print Assumptions C06_socks5_no_stable.
Print Assumptions C06_socks5_fragments.
Print Assumptions C06_regexp_no_stable.
Print Assumptions C06_regexp_fragments.
Print Assumptions C06_tls_gate_no_stable.
Print Assumptions C06_tls_gate_fragments.
Print Assumptions C06_http_gate_no_stable.
Print Assumptions C06_http_gate_fragments.
Print Assumptions C06_not_no_stable.
Print Assumptions C06_not_fragments.
Print Assumptions C06_anymatch_no_stable.
Print Assumptions C06_anymatch_fragments.
