(* C17 - Throttled reads never exceed burst + rate x time; the stream stays intact.
   Property theorems only; every proof is [exact <lemma>] (lemmas: proofs/TokenBucketProofs.v).

   Reading the statements: a limit is lp/lq tokens (bytes) per second, time is in nanoseconds and
   unit L = lq * 10^9, so   pulled * unit L <= lburst L * unit L + lp L * (T - t0 + 1)   is
       pulled <= burst + rate * (T - t0 + 1ns);
   the nanosecond is the truncation of rate.Limit.durationFromTokens (see C17_slack_is_needed).
   Schedules: any list of Read calls on any connections (buffer length, delay, timer lateness,
   how much the inner connection hands over), any sessions (start, timer lateness, cancelled).
   clock_ordered: reservations reach each limiter in the order of their clock readings. *)
From Coq Require Import List ZArith Bool.
From Coq.Strings Require Import Byte.
From L4.model Require Import TokenBucket.
From L4.proofs Require Import TokenBucketProofs.
Import ListNotations.
Open Scope Z_scope.

(* per connection: bytes pulled from connection c by T, t0 = instant of its first Read *)
Theorem C17_throttle_bound : forall cfg h ss ops c L t0 T,
  0 < rq cfg -> 0 < trq cfg -> provision cfg = Some h ->
  hlocal h = Some L -> linf L = false ->
  Forall op_ok ops -> clock_ordered (snd (run h ss ops)) ->
  conn_reads_from h ss c t0 ops -> t0 <= T ->
  pulled (Some c) T (snd (run h ss ops)) * unit L <= lburst L * unit L + lp L * (T - t0 + 1).
Proof. exact throttle_bound_conn. Qed.

(* all connections of the handler together against the total limit *)
Theorem C17_throttle_bound_total : forall cfg h ss ops L t0 T,
  0 < rq cfg -> 0 < trq cfg -> provision cfg = Some h ->
  htotal h = Some L -> linf L = false ->
  Forall op_ok ops -> clock_ordered (snd (run h ss ops)) ->
  all_reads_from h ss t0 ops -> t0 <= T ->
  pulled None T (snd (run h ss ops)) * unit L <= lburst L * unit L + lp L * (T - t0 + 1).
Proof. exact throttle_bound_total. Qed.

(* every schedule, no assumption on the order in which concurrent Reads reach the limiters: the
   only excess is the rate times the total backward jump of the reservation instants (rate.go
   re-credits the interval when an instant precedes the previous one); [back_sum id tr] is that
   total for limiter id, 0 when clock_ordered *)
Theorem C17_throttle_bound_every_schedule : forall cfg h ss ops c L t0 T,
  0 < rq cfg -> 0 < trq cfg -> provision cfg = Some h ->
  hlocal h = Some L -> linf L = false ->
  Forall op_ok ops -> conn_reads_from h ss c t0 ops -> t0 <= T ->
  pulled (Some c) T (snd (run h ss ops)) * unit L
  <= lburst L * unit L + lp L * (T - t0 + 1) + lp L * back_sum (Local c) (snd (run h ss ops)).
Proof. exact throttle_bound_conn_any. Qed.

Theorem C17_throttle_bound_total_every_schedule : forall cfg h ss ops L t0 T,
  0 < rq cfg -> 0 < trq cfg -> provision cfg = Some h ->
  htotal h = Some L -> linf L = false ->
  Forall op_ok ops -> all_reads_from h ss t0 ops -> t0 <= T ->
  pulled None T (snd (run h ss ops)) * unit L
  <= lburst L * unit L + lp L * (T - t0 + 1) + lp L * back_sum Total (snd (run h ss ops)).
Proof. exact throttle_bound_total_any. Qed.

(* no byte is pulled before the latency has passed; a connection cancelled while waiting is never read *)
Theorem C17_first_read_after_latency : forall cfg h ss ops c t b bs er,
  0 < rq cfg -> 0 < trq cfg -> provision cfg = Some h ->
  Forall op_ok ops -> Forall session_ok ss ->
  In (EPull c t b bs er) (snd (run h ss ops)) ->
  exists s, nth_error ss c = Some s /\ (0 < latency cfg -> scancel s = false) /\
            sstart s + Z.max 0 (latency cfg) <= t.
Proof. exact first_read_after_latency. Qed.

(* delivered bytes followed by what the inner connection still holds = the inner stream *)
Theorem C17_throttle_identity : forall h ss ops c s,
  nth_error ss c = Some s ->
  stream_of c (snd (run h ss ops)) ++ winner (fst (run h ss ops)) c = sdata s.
Proof. exact throttle_identity_gen. Qed.

(* ---- chains of throttle handlers (head of the list = the handler that wrapped last).  The
   chain's output respects every stage's own bound, for every schedule of Reads, whatever the other
   stages are (with or without total limiters, stricter or laxer); the handlers stay in place. *)
Theorem C17_chain_respects_every_stage : forall hs sess reads t0,
  Forall handler_ok hs -> Forall (read_ok t0) reads ->
  map (fun s => fst (fst s)) (chain_run (chain_init hs sess) reads) = hs /\
  forall h w tr id L T, In (h, w, tr) (chain_run (chain_init hs sess) reads) ->
    lim_of h id = Some L -> linf L = false -> t0 <= T ->
    pulled (sel id) T tr * unit L <= lburst L * unit L + lp L * (T - t0 + 1) + lp L * back_sum id tr.
Proof. exact chain_bound. Qed.

(* what a stage records, it records at the instant the stage below (in the end: the socket) handed
   the bytes over: the bounds of all stages are about the same instants *)
Theorem C17_chain_pull_instant : forall h t w o j trdy batch w' e c tt b bs er,
  ready_time h t w o = Some (trdy, batch) -> read_step h t w (set_j3 o j) = (w', e) ->
  In (EPull c tt b bs er) e -> tt = trdy + j.
Proof. exact read_step_pull_time. Qed.

(* non-vacuity: two handlers without total limits, 200000 B/s (burst 200001) wrapped first and
   1000 B/s burst 500 wrapped last; three Reads of 4096 bytes at t = 1 s: the socket is asked for
   500 bytes each time, at 1 s, 1.5 s and 2 s, and both stages record exactly these pulls *)
Definition ch_lax : tconfig :=
  {| rp := 200000; rq := 1; rmax := false; rburst := 0; trp := 0; trq := 1; trmax := false; tburst := 0; latency := 0 |}.
Definition ch_strict : tconfig :=
  {| rp := 1000; rq := 1; rmax := false; rburst := 500; trp := 0; trq := 1; trmax := false; tburst := 0; latency := 0 |}.
Definition ch_op : op := {| oc := 0; olen := 4096; odelay := 0; oj2 := 0; oj3 := 0; oavail := 4096; oerr := 0 |}.
Definition ch_short (s : stage) : list (Z * Z * Z) :=
  flat_map (fun e => match e with EPull _ t b bs _ => [(t, b, Z.of_nat (length bs))] | _ => [] end) (snd s).
Example C17_chain_example :
  exists h1 h2, provision ch_strict = Some h1 /\ provision ch_lax = Some h2 /\
    map ch_short (chain_run (chain_init [h1; h2] [{| sstart := 0; sjit := 0; scancel := false; sdata := repeat x45 5000 |}])
                            [(1000000000, ch_op, 0); (1000000000, ch_op, 0); (1500000000, ch_op, 0)])
    = [[(1000000000, 500, 500); (1500000000, 500, 500); (2000000000, 500, 500)];
       [(1000000000, 500, 500); (1500000000, 500, 500); (2000000000, 500, 500)]].
Proof. eexists. eexists. split; [vm_compute; reflexivity|]. split; [vm_compute; reflexivity|]. vm_compute. reflexivity. Qed.

(* bytes the connection already holds when throttle runs (prefetched by matchers) come first and
   complete: Reads are served from that buffer until it is empty (never more than it held), and
   only then reach the throttled conn, whose stream C17_throttle_identity describes *)
Theorem C17_prefetched_first : forall lens b, 0 <= b -> Forall (fun l => 0 <= l) lens ->
  0 <= from_buffer (cx_plan b lens) <= b /\
  (forall pre l post, cx_plan b lens = pre ++ inr l :: post -> from_buffer pre = b /\ from_buffer post = 0).
Proof. exact cx_plan_buffer. Qed.

(* every inner Read asks for at most batch bytes, and batch is within both bursts *)
Theorem C17_read_within_batch : forall cfg h ss ops c t b bs er,
  0 < rq cfg -> 0 < trq cfg -> provision cfg = Some h -> Forall op_ok ops ->
  In (EPull c t b bs er) (snd (run h ss ops)) ->
  Z.of_nat (length bs) <= b /\ (forall L, htotal h = Some L -> b <= lburst L) /\ (forall L, hlocal h = Some L -> b <= lburst L).
Proof. exact read_within_batch. Qed.

(* a configured rate always has a positive burst, so the limiter never rejects a batch *)
Theorem C17_provision_burst_positive : forall c h L, 0 < rq c -> 0 < trq c -> provision c = Some h ->
  (hlocal h = Some L \/ htotal h = Some L) -> 0 < lp L -> 0 < lburst L.
Proof. exact provision_burst_pos. Qed.

Theorem C17_slack_is_needed :
  exists L st1 st2 d1 d2,
    limiter_ok L /\ linf L = false /\
    wait_n L (new_limiter L) 0 1 = (st1, WSleep d1) /\ wait_n L st1 0 1 = (st2, WSleep d2) /\
    d1 = 0 /\ d2 = 0 /\ lburst L = 1.
Proof. exact exact_bound_needs_slack. Qed.

(* ---- non-vacuity: 1000 B/s burst 100 per connection, 1500 B/s burst 150 in total, latency 5 ms;
   two connections, the second starting 1 ms later; every hypothesis of the theorems holds, bytes
   do flow, and the first connection sits exactly on its bound at the instant of its third read *)
Definition ex_cfg : tconfig :=
  {| rp := 1000; rq := 1; rmax := false; rburst := 100; trp := 1500; trq := 1; trmax := false; tburst := 150; latency := 5000000 |}.
Definition ex_data : list byte := repeat x41 400.
Definition ex_ss : list session :=
  [ {| sstart := 1000000000; sjit := 1000; scancel := false; sdata := ex_data |};
    {| sstart := 1001000000; sjit := 0; scancel := false; sdata := ex_data |};
    {| sstart := 1001000000; sjit := 0; scancel := true; sdata := ex_data |} ].
Definition ex_ops : list op :=
  [ {| oc := 0; olen := 4096; odelay := 0; oj2 := 10; oj3 := 10; oavail := 4096; oerr := 0 |};
    {| oc := 0; olen := 4096; odelay := 20000; oj2 := 10; oj3 := 10; oavail := 4096; oerr := 0 |};
    {| oc := 1; olen := 64; odelay := 0; oj2 := 0; oj3 := 5; oavail := 10; oerr := 0 |};
    {| oc := 2; olen := 64; odelay := 0; oj2 := 0; oj3 := 0; oavail := 64; oerr := 0 |};
    {| oc := 0; olen := 4096; odelay := 150000000; oj2 := 0; oj3 := 0; oavail := 4096; oerr := 0 |} ].

Example C17_nonvacuous :
  exists h L LT, provision ex_cfg = Some h /\ hlocal h = Some L /\ htotal h = Some LT /\
    Forall op_ok ex_ops /\ Forall session_ok ex_ss /\
    existsb is_back (snd (run h ex_ss ex_ops)) = false /\
    conn_reads_from h ex_ss 0%nat 1005001000 ex_ops /\ all_reads_from h ex_ss 1005001000 ex_ops /\
    pulled (Some 0%nat) 1005001020 (snd (run h ex_ss ex_ops)) = 100 /\
    pulled (Some 0%nat) 1205001010 (snd (run h ex_ss ex_ops)) = 300 /\
    pulled None 1205001010 (snd (run h ex_ss ex_ops)) = 310 /\
    stream_of 1%nat (snd (run h ex_ss ex_ops)) = repeat x41 10 /\
    stream_of 2%nat (snd (run h ex_ss ex_ops)) = [].
Proof.
  eexists. eexists. eexists. split; [vm_compute; reflexivity|]. split; [reflexivity|]. split; [reflexivity|].
  split; [repeat constructor; cbn; discriminate|]. split; [repeat constructor; cbn; discriminate|].
  split; [vm_compute; reflexivity|].
  split; [intros o s rdy Hin Hc Hs Hr; cbn in Hin; repeat (destruct Hin as [<-|Hin]); try contradiction; cbn in Hc; try discriminate;
          cbn in Hs; inversion Hs; subst s; vm_compute in Hr; inversion Hr; subst rdy; vm_compute; discriminate|].
  split; [intros o s rdy Hin Hs Hr; cbn in Hin; repeat (destruct Hin as [<-|Hin]); try contradiction;
          cbn in Hs; inversion Hs; subst s; vm_compute in Hr; try discriminate; inversion Hr; subst rdy; vm_compute; discriminate|].
  vm_compute. repeat split.
Qed.

(* the back_sum term is necessary: total limit 1000 B/s, burst 100; the third Read reaches the
   limiter with a clock reading 50 ms older than the second one's; 400 bytes are pulled by
   t0 + 250 ms although burst + rate * 250 ms = 350; the excess is rate * 50 ms *)
Definition bj_cfg : tconfig :=
  {| rp := 0; rq := 1; rmax := false; rburst := 0; trp := 1000; trq := 1; trmax := false; tburst := 100; latency := 0 |}.
Definition bj_ss : list session :=
  repeat {| sstart := 0; sjit := 0; scancel := false; sdata := repeat x42 1000 |} 3.
Definition bj_op (c : nat) (t : Z) : op := {| oc := c; olen := 100; odelay := t; oj2 := 0; oj3 := 0; oavail := 100; oerr := 0 |}.
Definition bj_ops : list op := [bj_op 1 900000000; bj_op 0 1000000000; bj_op 2 950000000; bj_op 0 1050000000].
Example C17_back_jump_excess :
  exists h L, provision bj_cfg = Some h /\ htotal h = Some L /\
    all_reads_from h bj_ss 900000000 bj_ops /\
    back_sum Total (snd (run h bj_ss bj_ops)) = 50000000 /\
    pulled None 1150000000 (snd (run h bj_ss bj_ops)) = 400 /\
    lburst L * unit L + lp L * (1150000000 - 900000000 + 1) < 400 * unit L /\
    400 * unit L <= lburst L * unit L + lp L * (1150000000 - 900000000 + 1) + lp L * 50000000.
Proof.
  eexists. eexists. split; [vm_compute; reflexivity|]. split; [reflexivity|].
  split; [intros o s rdy Hin Hs Hr; cbn in Hin; repeat (destruct Hin as [<-|Hin]); try contradiction;
          cbn in Hs; inversion Hs; subst s; vm_compute in Hr; inversion Hr; subst rdy; vm_compute; discriminate|].
  vm_compute. repeat split; discriminate.
Qed.

(* bytes that the inner connection hands over together with an error (n > 0 and io.EOF, or a
   reset) are delivered like any others: 100-byte reads of a 137-byte stream, the second inner
   Read returns the last 37 bytes with io.EOF (err = 1) *)
Definition ie_cfg : tconfig :=
  {| rp := 10000000; rq := 1; rmax := false; rburst := 512; trp := 0; trq := 1; trmax := false; tburst := 0; latency := 0 |}.
Definition ie_ss : list session := [{| sstart := 0; sjit := 0; scancel := false; sdata := repeat x43 137 |}].
Definition ie_ops : list op :=
  [ {| oc := 0; olen := 100; odelay := 0; oj2 := 0; oj3 := 0; oavail := 100; oerr := 0 |};
    {| oc := 0; olen := 100; odelay := 10; oj2 := 0; oj3 := 0; oavail := 100; oerr := 1 |} ].
Example C17_identity_with_error :
  exists h, provision ie_cfg = Some h /\
    (exists t, In (EPull 0%nat t 100 (repeat x43 37) 1) (snd (run h ie_ss ie_ops))) /\
    stream_of 0%nat (snd (run h ie_ss ie_ops)) = repeat x43 137 /\
    winner (fst (run h ie_ss ie_ops)) 0%nat = [].
Proof. eexists. split; [vm_compute; reflexivity|]. split; [eexists; vm_compute; auto|]. vm_compute. auto. Qed.

(* the latency wait does not depend on any limit being configured: latency alone (no limiter at
   all) still delays the first read; Provision accepts the configuration *)
Definition lo_cfg : tconfig :=
  {| rp := 0; rq := 1; rmax := false; rburst := 0; trp := 0; trq := 1; trmax := false; tburst := 0; latency := 80000000 |}.
Example C17_latency_only :
  exists h, provision lo_cfg = Some h /\ hlocal h = None /\ htotal h = None /\
    snd (run h [{| sstart := 1000; sjit := 0; scancel := false; sdata := repeat x44 20 |}]
               [{| oc := 0; olen := 16; odelay := 0; oj2 := 0; oj3 := 0; oavail := 16; oerr := 0 |}])
    = [EPull 0%nat 80001000 16 (repeat x44 16) 0].
Proof. eexists. split; [vm_compute; reflexivity|]. vm_compute. auto. Qed.

Print Assumptions C17_throttle_bound.
Print Assumptions C17_latency_only.
Print Assumptions C17_identity_with_error.
Print Assumptions C17_back_jump_excess.
Print Assumptions C17_throttle_bound_total.
Print Assumptions C17_throttle_bound_every_schedule.
Print Assumptions C17_throttle_bound_total_every_schedule.
Print Assumptions C17_first_read_after_latency.
Print Assumptions C17_throttle_identity.
Print Assumptions C17_chain_respects_every_stage.
Print Assumptions C17_chain_pull_instant.
Print Assumptions C17_chain_example.
Print Assumptions C17_prefetched_first.
Print Assumptions C17_read_within_batch.
Print Assumptions C17_provision_burst_positive.
Print Assumptions C17_slack_is_needed.
Print Assumptions C17_nonvacuous.
